package main

// Automatic trigger selection for quantifiers written in contracts: the
// smallest memory reads / spec-function applications that mention the bound
// variables (solvers' own inference tends to pick unusable patterns in the
// large formulas generated here).

import (
	"sort"
	"strings"
)

type sx struct {
	atom string
	kids []*sx
	text string
}

func parseSX(s string) *sx {
	pos := 0
	var parse func() *sx
	parse = func() *sx {
		for pos < len(s) && (s[pos] == ' ' || s[pos] == '\n') {
			pos++
		}
		if pos >= len(s) {
			return nil
		}
		start := pos
		if s[pos] == '(' {
			pos++
			n := &sx{}
			for {
				for pos < len(s) && (s[pos] == ' ' || s[pos] == '\n') {
					pos++
				}
				if pos >= len(s) {
					break
				}
				if s[pos] == ')' {
					pos++
					break
				}
				k := parse()
				if k == nil {
					break
				}
				n.kids = append(n.kids, k)
			}
			n.text = s[start:pos]
			return n
		}
		for pos < len(s) && s[pos] != ' ' && s[pos] != '(' && s[pos] != ')' && s[pos] != '\n' {
			pos++
		}
		return &sx{atom: s[start:pos], text: s[start:pos]}
	}
	return parse()
}

func (n *sx) mentions(v string) bool {
	if n.atom != "" {
		return n.atom == v
	}
	for _, k := range n.kids {
		if k.mentions(v) {
			return true
		}
	}
	return false
}

func isTriggerHead(h string) bool {
	if h == "select" || h == "sat_" || h == "slen_" || h == "root" || h == "atype" {
		return h == "select" || h == "sat_"
	}
	return strings.HasPrefix(h, "pf_") || strings.HasPrefix(h, "gh_")
}

func collectTriggers(n *sx, vars []string, out *[]*sx) {
	if n == nil || n.atom != "" {
		return
	}
	if len(n.kids) > 0 && n.kids[0].atom != "" && isTriggerHead(n.kids[0].atom) {
		// a select whose array argument is itself a bound-variable-dependent term is fine; but the head
		// must not be a quantifier / let
		for _, v := range vars {
			if n.mentions(v) {
				*out = append(*out, n)
				break
			}
		}
	}
	if len(n.kids) > 0 && (n.kids[0].atom == "forall" || n.kids[0].atom == "exists") {
		return // do not look inside nested quantifiers
	}
	for _, k := range n.kids {
		collectTriggers(k, vars, out)
	}
}

// choosePatterns returns an SMT ":pattern ..." annotation suffix (possibly empty).
func choosePatterns(body string, vars []string) string {
	tree := parseSX(body)
	if tree == nil {
		return ""
	}
	var cands []*sx
	collectTriggers(tree, vars, &cands)
	if len(cands) == 0 {
		return ""
	}
	// dedupe, sort by size
	seen := map[string]bool{}
	var uniq []*sx
	for _, c := range cands {
		if !seen[c.text] {
			seen[c.text] = true
			uniq = append(uniq, c)
		}
	}
	sort.Slice(uniq, func(i, j int) bool {
		if len(uniq[i].text) != len(uniq[j].text) {
			return len(uniq[i].text) < len(uniq[j].text)
		}
		return uniq[i].text < uniq[j].text
	})
	coversAll := func(c *sx) bool {
		for _, v := range vars {
			if !c.mentions(v) {
				return false
			}
		}
		return true
	}
	var pats []string
	for _, c := range uniq {
		if coversAll(c) {
			// skip candidates that strictly contain a smaller chosen candidate (they match less often)
			pats = append(pats, ":pattern ("+c.text+")")
			if len(pats) >= 3 {
				break
			}
		}
	}
	if len(pats) > 0 {
		return " " + strings.Join(pats, " ")
	}
	// multi-pattern: smallest candidate per variable
	var parts []string
	used := map[string]bool{}
	for _, v := range vars {
		found := false
		for _, c := range uniq {
			if c.mentions(v) {
				if !used[c.text] {
					used[c.text] = true
					parts = append(parts, c.text)
				}
				found = true
				break
			}
		}
		if !found {
			return ""
		}
	}
	return " :pattern (" + strings.Join(parts, " ") + ")"
}
