package main

// Evaluation of contract expressions to SMT terms over a symbolic state.

import (
	"fmt"
	"go/constant"
	"go/types"
	"math/big"
	"os"
	"strings"
)

type SpecEnv struct {
	c            *Ctx
	st           *State
	vars         map[string]T
	pkg          string
	old          *MemSnap // state that old(...) refers to
	snapOnly     *MemSnap // evaluate everything in this snapshot (st may be nil)
	inOld        bool
	fr           *Frame
	bound        map[string]T
	nested       bool
	internal     bool // clause evaluated at an inner program point (loop invariant, before/after): names denote current values
	pol          int  // +1: formula is a proof goal, -1: formula is assumed, 0: unknown polarity
	pendingFacts []string
	facts        []string // well-formedness facts about values loaded from memory while evaluating
	noFacts      bool
}

// note records the well-typedness of a value just loaded from memory (true in every reachable state).
func (se *SpecEnv) note(term string, ty types.Type) {
	if se.noFacts || ty == nil || noFactsEnv {
		return
	}
	switch se.c.reg.SortOf(ty) {
	case "Addr", "Slice", "Int", "Iface", "Func":
		f := se.c.wf(term, ty, se.heapTop())
		if f != "true" {
			se.facts = append(se.facts, f)
		}
	}
}

func (se *SpecEnv) takeFacts(from int) string {
	if from >= len(se.facts) {
		return "true"
	}
	fs := append([]string(nil), se.facts[from:]...)
	se.facts = se.facts[:from]
	// dedupe
	seen := map[string]bool{}
	var out []string
	for _, f := range fs {
		if !seen[f] {
			seen[f] = true
			out = append(out, f)
		}
	}
	return and(out...)
}

var noFactsEnv = os.Getenv("VERIF_NOFACTS") != ""
var noHoistEnv = os.Getenv("VERIF_NOHOIST") != ""
var noPatternsEnv = os.Getenv("VERIF_PATTERNS") == ""

type specErr struct{ msg string }

func (se *SpecEnv) fail(format string, a ...interface{}) {
	panic(specErr{fmt.Sprintf(format, a...)})
}

func (se *SpecEnv) memOf(key string) string {
	se.c.memSymSort(key)
	if se.inOld && se.old != nil {
		return se.c.snapMem(se.old, key)
	}
	if se.snapOnly != nil {
		return se.c.snapMem(se.snapOnly, key)
	}
	return se.c.mem(se.st, key)
}

func (se *SpecEnv) heapTop() string {
	if se.inOld && se.old != nil {
		return se.old.heapTop
	}
	if se.snapOnly != nil {
		return se.snapOnly.heapTop
	}
	return se.st.heapTop
}

func (se *SpecEnv) evalBool(e Expr) string {
	top := len(se.bound) == 0 && !se.nested
	mark := len(se.facts)
	if top {
		se.nested = true
		defer func() { se.nested = false }()
	}
	t := se.eval(e)
	if t.So != "Bool" {
		se.fail("expected boolean, got %s in %s", t.So, e)
	}
	if top {
		f := se.takeFacts(mark)
		if f != "true" {
			if se.st != nil {
				se.st.assume(f)
			} else {
				se.pendingFacts = append(se.pendingFacts, f)
			}
		}
	}
	return t.S
}

func (c *Ctx) evalBoolIn(st *State, fr *Frame, e Expr, old *MemSnap) string {
	se := &SpecEnv{c: c, st: st, vars: fr.env, pkg: c.pkgOfFrame(fr), old: old, fr: fr}
	return se.prove(e)
}

func (se *SpecEnv) pkgTypes() *types.Package {
	return se.c.eng.typesPkg(se.pkg)
}

// resolveType maps a type string of the spec language to (Go type | nil, SMT sort).
func (se *SpecEnv) resolveType(s string) (types.Type, string) {
	s = strings.TrimSpace(s)
	switch s {
	case "int", "Int":
		return types.Typ[types.Int], "Int"
	case "int64":
		return types.Typ[types.Int64], "Int"
	case "uint64":
		return types.Typ[types.Uint64], "Int"
	case "uint8", "byte":
		return types.Typ[types.Uint8], "Int"
	case "mathint":
		return nil, "Int"
	case "bool", "Bool":
		return types.Typ[types.Bool], "Bool"
	case "string", "Str":
		return types.Typ[types.String], "Str"
	case "float64":
		return types.Typ[types.Float64], "F64"
	case "Addr":
		return nil, "Addr"
	case "Iface":
		return nil, "Iface"
	case "Slice":
		return nil, "Slice"
	case "Func":
		return nil, "Func"
	case "error":
		return types.Universe.Lookup("error").Type(), "Iface"
	}
	if se.c.eng.db.Sorts[s] {
		se.c.reg.AddDecl("sort:"+s, "(declare-sort "+s+" 0)")
		return nil, s
	}
	if strings.HasPrefix(s, "*") {
		t, _ := se.resolveType(s[1:])
		if t == nil {
			se.fail("cannot resolve pointer type %s", s)
		}
		return types.NewPointer(t), "Addr"
	}
	if strings.HasPrefix(s, "[]") {
		t, _ := se.resolveType(s[2:])
		if t == nil {
			se.fail("cannot resolve slice type %s", s)
		}
		return types.NewSlice(t), "Slice"
	}
	if strings.HasPrefix(s, "map[") {
		k := matchBracket(s, 3)
		kt, _ := se.resolveType(s[4:k])
		vt, _ := se.resolveType(s[k+1:])
		return types.NewMap(kt, vt), "Addr"
	}
	if i := strings.LastIndex(s, "."); i >= 0 {
		pn, name := s[:i], s[i+1:]
		if se.c.eng.db.Sorts[name] {
			se.c.reg.AddDecl("sort:"+name, "(declare-sort "+name+" 0)")
			return nil, name
		}
		if p := se.c.eng.findPkgByName(se.pkg, pn); p != nil {
			if o := p.Scope().Lookup(name); o != nil {
				return o.Type(), se.c.reg.SortOf(o.Type())
			}
		}
		se.fail("cannot resolve type %s", s)
	}
	if p := se.pkgTypes(); p != nil {
		if o := p.Scope().Lookup(s); o != nil {
			if _, ok := o.(*types.TypeName); ok {
				return o.Type(), se.c.reg.SortOf(o.Type())
			}
		}
	}
	se.fail("cannot resolve type %q in package %s", s, se.pkg)
	return nil, ""
}

func matchBracket(s string, i int) int {
	d := 0
	for j := i; j < len(s); j++ {
		if s[j] == '[' {
			d++
		}
		if s[j] == ']' {
			d--
			if d == 0 {
				return j
			}
		}
	}
	return len(s) - 1
}

func (se *SpecEnv) lookupIdent(name string) (T, bool) {
	if t, ok := se.bound[name]; ok {
		return t, true
	}
	if se.internal && !se.inOld && se.fr != nil && se.st != nil {
		if vb, ok := se.st.vars[se.c.frameVarKey(se.fr, name)]; ok && !vb.isAddr && se.fr.paramSet[name] {
			return vb.val, true
		}
	}
	if se.internal && !se.inOld && se.fr != nil && se.st != nil {
		// a parameter that was spilled to a cell (captured by a closure or address-taken): outside old()
		// the name denotes the variable's current value, i.e. the content of the cell
		if vb, ok := se.st.vars[se.c.frameVarKey(se.fr, name)]; ok && vb.isAddr {
			if se.fr.paramSet[name] {
				term := se.c.loadWith(se.memOf, vb.val.S, vb.ty)
				se.note(term, vb.ty)
				return T{S: term, So: se.c.reg.SortOf(vb.ty), Ty: vb.ty}, true
			}
		}
	}
	if t, ok := se.vars[name]; ok {
		return t, true
	}
	if se.fr != nil && se.st != nil {
		if vb, ok := se.st.vars[se.c.frameVarKey(se.fr, name)]; ok {
			if vb.isAddr {
				term := se.c.loadWith(se.memOf, vb.val.S, vb.ty)
				se.note(term, vb.ty)
				return T{S: term, So: se.c.reg.SortOf(vb.ty), Ty: vb.ty}, true
			}
			return vb.val, true
		}
	}
	switch name {
	case "nil":
		return T{S: "nil", So: "Nil"}, true
	case "true":
		return T{S: "true", So: "Bool"}, true
	case "false":
		return T{S: "false", So: "Bool"}, true
	case "heapTop":
		return T{S: se.heapTop(), So: "Int"}, true
	}
	if p := se.pkgTypes(); p != nil {
		if o := p.Scope().Lookup(name); o != nil {
			return se.objValue(o)
		}
	}
	// zero-argument pure function / ghost constant
	if pf, ok := se.c.eng.db.Pures[name]; ok && len(pf.Params) == 0 {
		return se.callPure(pf, nil), true
	}
	return T{}, false
}

func (se *SpecEnv) objValue(o types.Object) (T, bool) {
	switch x := o.(type) {
	case *types.Const:
		so := se.c.reg.SortOf(x.Type())
		switch so {
		case "Int":
			return T{S: constIntString(x.Val()), So: "Int", Ty: x.Type()}, true
		case "Bool":
			if constant.BoolVal(x.Val()) {
				return T{S: "true", So: "Bool", Ty: x.Type()}, true
			}
			return T{S: "false", So: "Bool", Ty: x.Type()}, true
		case "Str":
			return T{S: se.c.reg.StrLit(constant.StringVal(x.Val())), So: "Str", Ty: x.Type()}, true
		}
	case *types.Var:
		if se.c.eng.db.Sentinels[x.Pkg().Path()+"."+x.Name()] {
			return T{S: se.c.sentinelConst(x.Pkg().Path() + "." + x.Name()), So: "Iface", Ty: x.Type()}, true
		}
		// package-level variable: value loaded from its global cell
		addr := se.c.reg.Global(x.Pkg().Path() + "." + x.Name())
		term := se.c.loadWith(se.memOf, addr, x.Type())
		return T{S: term, So: se.c.reg.SortOf(x.Type()), Ty: x.Type()}, true
	case *types.Func:
		// a package-level function used as a value (compared with a function-typed field or argument)
		if fn := se.c.eng.prog.FuncValue(x); fn != nil {
			return T{S: fmt.Sprintf("(mk_func %d nil)", se.c.reg.FuncID(fn.String())), So: "Func", Ty: x.Type()}, true
		}
	}
	return T{}, false
}

func (se *SpecEnv) eval(e Expr) T {
	switch x := e.(type) {
	case *EIdent:
		if t, ok := se.lookupIdent(x.Name); ok {
			return t
		}
		se.fail("unknown identifier %q", x.Name)
	case *EInt:
		v, ok := new(big.Int).SetString(x.V, 0)
		if !ok {
			se.fail("bad integer %s", x.V)
		}
		return T{S: smtInt(v), So: "Int"}
	case *EStr:
		return T{S: se.c.reg.StrLit(x.V), So: "Str", Ty: types.Typ[types.String]}
	case *ESel:
		return se.evalSel(x)
	case *EIndex:
		return se.evalIndex(x)
	case *ESlice:
		b := se.eval(x.X)
		if b.So != "Slice" {
			se.fail("slice expression on %s", b.So)
		}
		lo := "0"
		if x.Lo != nil {
			lo = se.eval(x.Lo).S
		}
		hi := "(slen " + b.S + ")"
		if x.Hi != nil {
			hi = se.eval(x.Hi).S
		}
		return T{S: fmt.Sprintf("(mk_slice (sarr %s) (+ (soff %s) %s) (- %s %s) (- (scap %s) %s))", b.S, b.S, lo, hi, lo, b.S, lo), So: "Slice", Ty: b.Ty}
	case *EUnary:
		switch x.Op {
		case "!":
			se.pol = -se.pol
			r := T{S: not(se.evalBool(x.X)), So: "Bool"}
			se.pol = -se.pol
			return r
		case "-":
			v := se.eval(x.X)
			return T{S: "(- " + v.S + ")", So: "Int", Ty: v.Ty}
		case "&":
			a, ty := se.evalAddr(x.X)
			return T{S: a, So: "Addr", Ty: types.NewPointer(ty)}
		case "*":
			p := se.eval(x.X)
			pt, ok := p.Ty.Underlying().(*types.Pointer)
			if !ok {
				se.fail("deref of non-pointer %s", x.X)
			}
			r := T{S: se.c.loadWith(se.memOf, p.S, pt.Elem()), So: se.c.reg.SortOf(pt.Elem()), Ty: pt.Elem()}
			se.note(r.S, pt.Elem())
			return r
		}
	case *EBinary:
		return se.evalBinary(x)
	case *ECond:
		sp := se.pol
		se.pol = 0
		cnd := se.evalBool(x.C)
		se.pol = sp
		a := se.eval(x.A)
		b := se.eval(x.B)
		a, b = se.unifyNil(a, b)
		return T{S: "(ite " + cnd + " " + a.S + " " + b.S + ")", So: a.So, Ty: a.Ty}
	case *EQuant:
		return se.evalQuant(x)
	case *ECall:
		return se.evalCall(x)
	}
	se.fail("cannot evaluate %s", e)
	return T{}
}

func (se *SpecEnv) unifyNil(a, b T) (T, T) {
	if a.So == "Nil" && b.So != "Nil" {
		a = se.nilOf(b)
	}
	if b.So == "Nil" && a.So != "Nil" {
		b = se.nilOf(a)
	}
	if a.So == "Nil" && b.So == "Nil" {
		a = T{S: "nil", So: "Addr"}
		b = a
	}
	return a, b
}

func (se *SpecEnv) nilOf(like T) T {
	switch like.So {
	case "Addr":
		return T{S: "nil", So: "Addr", Ty: like.Ty}
	case "Slice":
		return T{S: "nil_slice", So: "Slice", Ty: like.Ty}
	case "Iface":
		return T{S: "nil_iface", So: "Iface", Ty: like.Ty}
	case "Func":
		return T{S: "nil_func", So: "Func", Ty: like.Ty}
	}
	se.fail("nil compared with sort %s", like.So)
	return T{}
}

func (se *SpecEnv) evalBinary(x *EBinary) T {
	switch x.Op {
	case "&&":
		return T{S: and(se.evalBool(x.L), se.evalBool(x.R)), So: "Bool"}
	case "||":
		return T{S: or(se.evalBool(x.L), se.evalBool(x.R)), So: "Bool"}
	case "==>":
		se.pol = -se.pol
		l := se.evalBool(x.L)
		se.pol = -se.pol
		return T{S: "(=> " + l + " " + se.evalBool(x.R) + ")", So: "Bool"}
	case "<==>":
		sp := se.pol
		se.pol = 0
		r := T{S: "(= " + se.evalBool(x.L) + " " + se.evalBool(x.R) + ")", So: "Bool"}
		se.pol = sp
		return r
	}
	sp := se.pol
	if x.Op == "==" || x.Op == "!=" {
		se.pol = 0
	}
	l := se.eval(x.L)
	r := se.eval(x.R)
	se.pol = sp
	l, r = se.unifyNil(l, r)
	switch x.Op {
	case "==", "!=":
		if l.So != r.So {
			se.fail("sort mismatch in %s: %s vs %s", x, l.So, r.So)
		}
		eq := "(= " + l.S + " " + r.S + ")"
		if x.Op == "!=" {
			eq = not(eq)
		}
		return T{S: eq, So: "Bool"}
	case "<", "<=", ">", ">=":
		if l.So == "Str" {
			switch x.Op {
			case "<":
				return T{S: "(slt_ " + l.S + " " + r.S + ")", So: "Bool"}
			case ">":
				return T{S: "(slt_ " + r.S + " " + l.S + ")", So: "Bool"}
			case "<=":
				return T{S: "(not (slt_ " + r.S + " " + l.S + "))", So: "Bool"}
			default:
				return T{S: "(not (slt_ " + l.S + " " + r.S + "))", So: "Bool"}
			}
		}
		if l.So == "F64" {
			switch x.Op {
			case "<":
				return T{S: "(f64_lt " + l.S + " " + r.S + ")", So: "Bool"}
			case ">":
				return T{S: "(f64_lt " + r.S + " " + l.S + ")", So: "Bool"}
			}
		}
		if l.So != "Int" || r.So != "Int" {
			se.fail("comparison on %s/%s in %s", l.So, r.So, x)
		}
		return T{S: "(" + x.Op + " " + l.S + " " + r.S + ")", So: "Bool"}
	case "+":
		if l.So == "Str" {
			return T{S: "(sconcat_ " + l.S + " " + r.S + ")", So: "Str", Ty: l.Ty}
		}
		return T{S: "(+ " + l.S + " " + r.S + ")", So: "Int", Ty: l.Ty}
	case "-":
		return T{S: "(- " + l.S + " " + r.S + ")", So: "Int", Ty: l.Ty}
	case "*":
		return T{S: "(* " + l.S + " " + r.S + ")", So: "Int", Ty: l.Ty}
	case "/":
		return T{S: "(div " + l.S + " " + r.S + ")", So: "Int", Ty: l.Ty}
	case "%":
		return T{S: "(mod " + l.S + " " + r.S + ")", So: "Int", Ty: l.Ty}
	}
	se.fail("bad binary operator %s", x.Op)
	return T{}
}

func (se *SpecEnv) evalQuant(x *EQuant) T {
	saved := se.bound
	nb := map[string]T{}
	for k, v := range saved {
		nb[k] = v
	}
	var decl []string
	var guards []string
	for _, v := range x.Vars {
		ty, so := se.resolveType(v.Type)
		se.c.counter++
		n := fmt.Sprintf("q%d_%s", se.c.counter, sanitize(v.Name))
		nb[v.Name] = T{S: n, So: so, Ty: ty}
		decl = append(decl, "("+n+" "+so+")")
		if ty != nil {
			if _, isInt := intInfoOf(ty); isInt && v.Type != "int" && v.Type != "Int" {
				guards = append(guards, se.c.wf(n, ty, se.heapTop()))
			}
		}
	}
	// hoist ground sub-expressions (memory reads that do not depend on the bound variables) out of the
	// quantifier: they are evaluated once, named by a constant, and so become ground terms the solver
	// can match frame axioms and other quantifiers against
	bodyExpr := x.Body
	hoisted := map[string]T{}
	if se.st != nil && !noHoistEnv {
		names := map[string]bool{}
		for k := range nb {
			names[k] = true
		}
		bodyExpr = se.hoistGround(bodyExpr, names, hoisted)
	}
	for k, v := range hoisted {
		nb[k] = v
	}
	se.bound = nb
	mark := len(se.facts)
	body := se.evalBool(bodyExpr)
	se.bound = saved
	lf := se.takeFacts(mark)
	if lf != "true" {
		switch {
		case se.pol < 0:
			body = "(and " + lf + " " + body + ")"
		}
	}
	g := and(guards...)
	var vnames []string
	for _, d := range decl {
		vnames = append(vnames, strings.Fields(strings.Trim(d, "()"))[0])
	}
	if x.Forall {
		if g != "true" {
			body = "(=> " + g + " " + body + ")"
		}
		if pat := choosePatterns(body, vnames); pat != "" && !noPatternsEnv {
			return T{S: "(forall (" + strings.Join(decl, " ") + ") (! " + body + pat + "))", So: "Bool"}
		}
		return T{S: "(forall (" + strings.Join(decl, " ") + ") " + body + ")", So: "Bool"}
	}
	if g != "true" {
		body = "(and " + g + " " + body + ")"
	}
	return T{S: "(exists (" + strings.Join(decl, " ") + ") " + body + ")", So: "Bool"}
}

// structField finds field f of the struct type t (possibly pointer); returns index path.
func structOf(t types.Type) (*types.Struct, bool, types.Type) {
	if t == nil {
		return nil, false, nil
	}
	if p, ok := t.Underlying().(*types.Pointer); ok {
		if s, ok := p.Elem().Underlying().(*types.Struct); ok {
			return s, true, p.Elem()
		}
		return nil, false, nil
	}
	if s, ok := t.Underlying().(*types.Struct); ok {
		return s, false, t
	}
	return nil, false, nil
}

func fieldIndex(s *types.Struct, name string) int {
	for i := 0; i < s.NumFields(); i++ {
		if s.Field(i).Name() == name {
			return i
		}
	}
	return -1
}

func (se *SpecEnv) evalSel(x *ESel) T {
	// package-qualified name
	if id, ok := x.X.(*EIdent); ok {
		if _, isVar := se.lookupIdent(id.Name); !isVar {
			if p := se.c.eng.findPkgByName(se.pkg, id.Name); p != nil {
				if o := p.Scope().Lookup(x.F); o != nil {
					if t, ok := se.objValue(o); ok {
						return t
					}
				}
				se.fail("cannot resolve %s.%s", id.Name, x.F)
			}
		}
	}
	b := se.eval(x.X)
	if st, isPtr, sty := structOf(b.Ty); st != nil {
		if i := fieldIndex(st, x.F); i >= 0 {
			ft := st.Field(i).Type()
			if isPtr {
				r := T{S: se.c.loadWith(se.memOf, fmt.Sprintf("(fld %s %d)", b.S, i), ft), So: se.c.reg.SortOf(ft), Ty: ft}
				se.note(r.S, ft)
				return r
			}
			si := se.c.reg.structInfoOf(sty)
			r := T{S: fmt.Sprintf("(%s_f%d %s)", si.name, i, b.S), So: se.c.reg.SortOf(ft), Ty: ft}
			se.note(r.S, ft)
			return r
		}
		// promoted fields through embedded structs
		for i := 0; i < st.NumFields(); i++ {
			if st.Field(i).Embedded() {
				if es, _, _ := structOf(st.Field(i).Type()); es != nil && fieldIndex(es, x.F) >= 0 {
					return se.evalSel(&ESel{&ESel{x.X, st.Field(i).Name()}, x.F})
				}
			}
		}
	}
	// ghost field
	if g, key := se.findGhost(b, x.F); g != nil {
		return se.ghostRead(g, key, b)
	}
	// built-in pseudo fields
	switch x.F {
	case "tag":
		if b.So == "Iface" {
			return T{S: "(itag " + b.S + ")", So: "Int"}
		}
	case "payload":
		if b.So == "Iface" {
			return T{S: "(ipay " + b.S + ")", So: "Addr"}
		}
	case "arr":
		if b.So == "Slice" {
			return T{S: "(sarr " + b.S + ")", So: "Addr"}
		}
	case "off":
		if b.So == "Slice" {
			return T{S: "(soff " + b.S + ")", So: "Int"}
		}
	}
	se.fail("no field or ghost field %q on %s (type %v)", x.F, x.X, b.Ty)
	return T{}
}

func (se *SpecEnv) findGhost(b T, f string) (*GhostField, string) {
	if b.Ty == nil {
		if g, ok := se.c.eng.db.Ghosts[b.So+"."+f]; ok {
			return g, b.So + "." + f
		}
		return nil, ""
	}
	cands := []string{types.TypeString(b.Ty, nil)}
	if b.So == "Str" {
		cands = append(cands, "string")
	}
	if p, ok := b.Ty.(*types.Pointer); ok {
		cands = append(cands, types.TypeString(p.Elem(), nil))
	}
	for _, cnd := range cands {
		if g, ok := se.c.eng.ghostByType[cnd+"."+f]; ok {
			return g, cnd + "." + f
		}
	}
	// interface types: a ghost field declared on interface I applies to every interface type that includes I's methods
	if iu, ok := b.Ty.Underlying().(*types.Interface); ok {
		var keys []string
		for k := range se.c.eng.ghostByType {
			if strings.HasSuffix(k, "."+f) {
				keys = append(keys, k)
			}
		}
		sortStrings(keys)
		for _, k := range keys {
			g := se.c.eng.ghostByType[k]
			ot := se.c.eng.ghostOwnerType[k]
			if ot == nil {
				continue
			}
			if oi, ok := ot.Underlying().(*types.Interface); ok {
				if types.Implements(iu, oi) || implementsIface(iu, oi) {
					return g, k
				}
			}
		}
	}
	// any ghost declared for the sort
	if g, ok := se.c.eng.db.Ghosts[b.So+"."+f]; ok {
		return g, b.So + "." + f
	}
	return nil, ""
}

func (se *SpecEnv) ghostRead(g *GhostField, key string, owner T) T {
	ty, so := se.resolveTypeIn(g.Pkg, g.Sort)
	se.c.usedPures["ghost:"+g.Name] = true
	if g.Mutable {
		mk := "G:" + key
		se.c.memSorts[mk] = "(Array " + owner.So + " " + so + ")"
		se.c.eng.ghostOwnerSort[mk] = owner.So
		return T{S: "(select " + se.memOf(mk) + " " + owner.S + ")", So: so, Ty: ty}
	}
	fn := "gh_" + sanitize(key)
	se.c.reg.AddDecl("ghost:"+key, "(declare-fun "+fn+" ("+owner.So+") "+so+")")
	return T{S: "(" + fn + " " + owner.S + ")", So: so, Ty: ty}
}

func (se *SpecEnv) resolveTypeIn(pkg, s string) (types.Type, string) {
	saved := se.pkg
	se.pkg = pkg
	defer func() { se.pkg = saved }()
	return se.resolveType(s)
}

func (se *SpecEnv) evalIndex(x *EIndex) T {
	b := se.eval(x.X)
	i := se.eval(x.I)
	if b.Ty != nil {
		switch u := b.Ty.Underlying().(type) {
		case *types.Slice:
			addr := fmt.Sprintf("(elem (sarr %s) (ix (soff %s) %s))", b.S, b.S, i.S)
			r := T{S: se.c.loadWith(se.memOf, addr, u.Elem()), So: se.c.reg.SortOf(u.Elem()), Ty: u.Elem()}
			if _, isStruct := u.Elem().Underlying().(*types.Struct); !isStruct {
				se.note(r.S, u.Elem())
			}
			return r
		case *types.Map:
			_, vk, _, vs := se.c.mapKeys(u)
			r := T{S: "(select (select " + se.memOf(vk) + " " + b.S + ") " + i.S + ")", So: vs, Ty: u.Elem()}
			se.note(r.S, u.Elem())
			return r
		case *types.Array:
			return T{S: "(select " + b.S + " " + i.S + ")", So: se.c.reg.SortOf(u.Elem()), Ty: u.Elem()}
		case *types.Basic:
			if b.So == "Str" {
				return T{S: "(sat_ " + b.S + " " + i.S + ")", So: "Int", Ty: types.Typ[types.Uint8]}
			}
		case *types.Pointer:
			if arr, ok := u.Elem().Underlying().(*types.Array); ok {
				addr := fmt.Sprintf("(elem %s %s)", b.S, i.S)
				return T{S: se.c.loadWith(se.memOf, addr, arr.Elem()), So: se.c.reg.SortOf(arr.Elem()), Ty: arr.Elem()}
			}
		}
	}
	if b.So == "Str" {
		return T{S: "(sat_ " + b.S + " " + i.S + ")", So: "Int", Ty: types.Typ[types.Uint8]}
	}
	if strings.HasPrefix(b.So, "(Array ") {
		// ghost array sort: element sort is the last component
		es := arrayElemSort(b.So)
		return T{S: "(select " + b.S + " " + i.S + ")", So: es}
	}
	se.fail("cannot index %s (sort %s)", x.X, b.So)
	return T{}
}

func arrayElemSort(s string) string {
	// "(Array K V)" -> V ; handles nested by scanning
	inner := strings.TrimSuffix(strings.TrimPrefix(s, "(Array "), ")")
	depth := 0
	for i := 0; i < len(inner); i++ {
		switch inner[i] {
		case '(':
			depth++
		case ')':
			depth--
		case ' ':
			if depth == 0 {
				return inner[i+1:]
			}
		}
	}
	return inner
}

// evalAddr computes the address and cell type of an lvalue expression.
func (se *SpecEnv) evalAddr(e Expr) (string, types.Type) {
	switch x := e.(type) {
	case *ESel:
		b := se.eval(x.X)
		if st, isPtr, _ := structOf(b.Ty); st != nil && isPtr {
			if i := fieldIndex(st, x.F); i >= 0 {
				return fmt.Sprintf("(fld %s %d)", b.S, i), st.Field(i).Type()
			}
		}
		// field of an addressable struct value: x.X must itself be an lvalue
		if st, isPtr, _ := structOf(b.Ty); st != nil && !isPtr {
			a, _ := se.evalAddr(x.X)
			if i := fieldIndex(st, x.F); i >= 0 {
				return fmt.Sprintf("(fld %s %d)", a, i), st.Field(i).Type()
			}
		}
		se.fail("cannot take address of %s", e)
	case *EUnary:
		if x.Op == "*" {
			p := se.eval(x.X)
			pt, ok := p.Ty.Underlying().(*types.Pointer)
			if !ok {
				se.fail("deref of non-pointer in %s", e)
			}
			return p.S, pt.Elem()
		}
	case *EIndex:
		b := se.eval(x.X)
		i := se.eval(x.I)
		if b.Ty != nil {
			switch u := b.Ty.Underlying().(type) {
			case *types.Slice:
				return fmt.Sprintf("(elem (sarr %s) (ix (soff %s) %s))", b.S, b.S, i.S), u.Elem()
			case *types.Pointer:
				if arr, ok := u.Elem().Underlying().(*types.Array); ok {
					return fmt.Sprintf("(elem %s %s)", b.S, i.S), arr.Elem()
				}
			case *types.Array:
				a, _ := se.evalAddr(x.X)
				return fmt.Sprintf("(elem %s %s)", a, i.S), u.Elem()
			}
		}
	case *EIdent:
		// a local variable whose address is taken (Alloc) or a global
		if se.fr != nil && se.st != nil {
			if vb, ok := se.st.vars[se.c.frameVarKey(se.fr, x.Name)]; ok && vb.isAddr {
				return vb.val.S, vb.ty
			}
		}
		if p := se.pkgTypes(); p != nil {
			if o, ok := p.Scope().Lookup(x.Name).(*types.Var); ok {
				return se.c.reg.Global(o.Pkg().Path() + "." + o.Name()), o.Type()
			}
		}
	}
	se.fail("not an lvalue: %s", e)
	return "", nil
}

func (se *SpecEnv) evalLoc(e Expr) []Loc {
	if cl, ok := e.(*ECall); ok {
		short := cl.Fn
		if i := strings.LastIndex(short, "."); i >= 0 {
			short = short[i+1:]
		}
		if lm, ok := se.c.eng.db.LocMacros[short]; ok {
			if len(lm.Params) != len(cl.Args) {
				se.fail("locs %s: want %d args", lm.Name, len(lm.Params))
			}
			m := map[string]Expr{}
			for i, prm := range lm.Params {
				m[prm.Name] = cl.Args[i]
			}
			var out []Loc
			for _, l := range lm.Locs {
				out = append(out, se.evalLoc(substExpr(l, m))...)
			}
			return out
		}
		switch cl.Fn {
		case "cells":
			s := se.eval(cl.Args[0])
			sl, ok := s.Ty.Underlying().(*types.Slice)
			if !ok {
				se.fail("cells() of non-slice")
			}
			return []Loc{{Kind: "cells", Addr: s.S, Ty: sl.Elem(), Text: e.String()}}
		case "region", "obj":
			p := se.eval(cl.Args[0])
			a := p.S
			switch p.So {
			case "Slice":
				a = "(sarr " + a + ")"
			case "Iface":
				a = "(ipay " + a + ")"
			}
			return []Loc{{Kind: "region", Addr: a, Text: e.String()}}
		case "map", "mapof":
			m := se.eval(cl.Args[0])
			return []Loc{{Kind: "map", Addr: m.S, Ty: m.Ty, Text: e.String()}}
		case "old":
			saved := se.inOld
			se.inOld = true
			defer func() { se.inOld = saved }()
			return se.evalLoc(cl.Args[0])
		case "ghostall":
			// ghostall("Owner.field"): the mutable ghost field of every owner
			name := cl.Args[0].(*EStr).V
			g, ok := se.c.eng.db.Ghosts[name]
			if !ok {
				// "pkgname.Type.field" as seen from this package
				if i := strings.Index(name, "."); i >= 0 {
					if p := se.c.eng.findPkgByName(se.pkg, name[:i]); p != nil {
						g, ok = se.c.eng.db.Ghosts[p.Path()+name[i:]]
					}
				}
			}
			if !ok {
				se.fail("unknown ghost field %q", name)
			}
			// canonical key: the longest key under which this ghost field is registered
			for k, g2 := range se.c.eng.ghostByType {
				if g2 == g && len(k) > len(name) {
					name = k
				}
			}
			os := "Iface"
			if strings.HasPrefix(name, "string.") {
				os = "Str"
			}
			if ot := se.c.eng.ghostOwnerType[name]; ot != nil {
				os = se.c.reg.SortOf(ot)
			}
			mk := "G:" + name
			_, so := se.resolveTypeIn(g.Pkg, g.Sort)
			se.c.memSorts[mk] = "(Array " + os + " " + so + ")"
			se.c.eng.ghostOwnerSort[mk] = os
			return []Loc{{Kind: "ghost", Key: mk, Idx: "*", OwnerSort: os, Text: e.String()}}
		}
	}
	// ghost field
	if sel, ok := e.(*ESel); ok {
		isPkg := false
		if id, ok := sel.X.(*EIdent); ok {
			if _, isVar := se.lookupIdent(id.Name); !isVar {
				isPkg = true
			}
		}
		if !isPkg {
			b := se.eval(sel.X)
			st, _, _ := structOf(b.Ty)
			if st == nil || fieldIndex(st, sel.F) < 0 {
				if g, key := se.findGhost(b, sel.F); g != nil && g.Mutable {
					mk := "G:" + key
					_, so := se.resolveTypeIn(g.Pkg, g.Sort)
					se.c.memSorts[mk] = "(Array " + b.So + " " + so + ")"
					se.c.eng.ghostOwnerSort[mk] = b.So
					return []Loc{{Kind: "ghost", Key: mk, Idx: b.S, OwnerSort: b.So, Text: e.String()}}
				}
			}
		}
	}
	a, ty := se.evalAddr(e)
	return []Loc{{Kind: "cell", Addr: a, Ty: ty, Text: e.String()}}
}

func (se *SpecEnv) evalCall(x *ECall) T {
	arg := func(i int) T {
		if i >= len(x.Args) {
			se.fail("%s: missing argument %d", x.Fn, i)
		}
		return se.eval(x.Args[i])
	}
	switch x.Fn {
	case "defined":
		// defined(x): the local or ghost-let x has been given a value on the path reaching this point
		id, ok := x.Args[0].(*EIdent)
		if !ok {
			se.fail("defined() takes a name")
		}
		found := false
		if se.fr != nil && se.st != nil {
			_, found = se.st.vars[se.c.frameVarKey(se.fr, id.Name)]
		}
		if found {
			return T{S: "true", So: "Bool"}
		}
		return T{S: "false", So: "Bool"}
	case "feq":
		// Go's == on float64 values (not SMT equality: NaN, signed zeros)
		a, b := arg(0), arg(1)
		return T{S: "(f64_eq " + a.S + " " + b.S + ")", So: "Bool"}
	case "old":
		saved := se.inOld
		se.inOld = true
		t := arg(0)
		se.inOld = saved
		return t
	case "len":
		a := arg(0)
		switch a.So {
		case "Slice":
			return T{S: "(slen " + a.S + ")", So: "Int", Ty: types.Typ[types.Int]}
		case "Str":
			return T{S: "(slen_ " + a.S + ")", So: "Int", Ty: types.Typ[types.Int]}
		case "Addr":
			if _, ok := a.Ty.Underlying().(*types.Map); ok {
				return T{S: "(ite (= " + a.S + " nil) 0 (select " + se.memOf("ML") + " " + a.S + "))", So: "Int", Ty: types.Typ[types.Int]}
			}
		}
		if a.Ty != nil {
			if arr, ok := a.Ty.Underlying().(*types.Array); ok {
				return T{S: fmt.Sprint(arr.Len()), So: "Int"}
			}
		}
		se.fail("len of %s", a.So)
	case "cap":
		a := arg(0)
		return T{S: "(scap " + a.S + ")", So: "Int", Ty: types.Typ[types.Int]}
	case "indom":
		m := arg(0)
		k := arg(1)
		mt, ok := m.Ty.Underlying().(*types.Map)
		if !ok {
			se.fail("indom on non-map")
		}
		dk, _, _, _ := se.c.mapKeys(mt)
		return T{S: "(and (not (= " + m.S + " nil)) (select (select " + se.memOf(dk) + " " + m.S + ") " + k.S + "))", So: "Bool"}
	case "iserr", "dyntype":
		v := arg(0)
		name := x.Args[1].(*EStr).V
		ty, _ := se.resolveType(name)
		return T{S: fmt.Sprintf("(= (itag %s) %d)", v.S, se.c.reg.TagOf(ty)), So: "Bool"}
	case "implements":
		v := arg(0)
		name := x.Args[1].(*EStr).V
		ty, _ := se.resolveType(name)
		id := se.c.reg.IfaceID(ty)
		se.c.ifaceTypes[types.TypeString(ty, nil)] = ty
		return T{S: fmt.Sprintf("(implements_ (itag %s) %d)", v.S, id), So: "Bool"}
	case "fresh":
		v := arg(0)
		a := v.S
		switch v.So {
		case "Slice":
			a = "(sarr " + a + ")"
		case "Iface":
			a = "(ipay " + a + ")"
		}
		if se.old == nil {
			se.fail("fresh() outside a postcondition")
		}
		return T{S: "(> (root " + a + ") " + se.old.heapTop + ")", So: "Bool"}
	case "iterfresh":
		// iterfresh(x): x was allocated during the current iteration of the enclosing loop (so nothing
		// handed out in an earlier iteration can alias it)
		v := arg(0)
		a := v.S
		switch v.So {
		case "Slice":
			a = "(sarr " + a + ")"
		case "Iface":
			a = "(ipay " + a + ")"
		}
		if se.st == nil || se.st.iterTop == "" {
			se.fail("iterfresh() outside a loop")
		}
		return T{S: "(> (root " + a + ") " + se.st.iterTop + ")", So: "Bool"}
	case "allocated":
		v := arg(0)
		a := v.S
		switch v.So {
		case "Slice":
			a = "(sarr " + a + ")"
		case "Iface":
			a = "(ipay " + a + ")"
		}
		return T{S: "(<= (root " + a + ") " + se.heapTop() + ")", So: "Bool"}
	case "iface":
		// iface(p): the interface value holding pointer p with its static type
		v := arg(0)
		if v.Ty == nil {
			se.fail("iface() needs a typed pointer")
		}
		r := T{S: fmt.Sprintf("(mk_iface %d %s)", se.c.reg.TagOf(v.Ty), v.S), So: "Iface"}
		if len(x.Args) > 1 {
			r.Ty, _ = se.resolveType(x.Args[1].(*EStr).V)
		}
		return r
	case "unbox":
		// unbox(i, "T"): the T value held (boxed) in interface i
		v := arg(0)
		ty, _ := se.resolveType(x.Args[1].(*EStr).V)
		if _, isPtr := ty.Underlying().(*types.Pointer); isPtr {
			return T{S: "(ipay " + v.S + ")", So: "Addr", Ty: ty}
		}
		return T{S: se.c.loadWith(se.c.boxMem, "(ipay "+v.S+")", ty), So: se.c.reg.SortOf(ty), Ty: ty}
	case "boxedslice":
		v := arg(0)
		return T{S: "(select " + se.c.boxMem("M:Slice") + " (ipay " + v.S + "))", So: "Slice"}
	case "root":
		v := arg(0)
		a := v.S
		switch v.So {
		case "Slice":
			a = "(sarr " + a + ")"
		case "Iface":
			a = "(ipay " + a + ")"
		}
		return T{S: "(root " + a + ")", So: "Int"}
	case "int", "int64", "uint64", "mathint":
		v := arg(0)
		v.Ty = nil
		return v
	case "wrap64":
		v := arg(0)
		return T{S: intInfo{64, true}.wrap(v.S), So: "Int"}
	case "wrapu64":
		v := arg(0)
		return T{S: intInfo{64, false}.wrap(v.S), So: "Int"}
	case "substr":
		s := arg(0)
		return T{S: "(ssub_ " + s.S + " " + arg(1).S + " " + arg(2).S + ")", So: "Str", Ty: types.Typ[types.String]}
	case "unchanged":
		// unchanged(e): e == old(e)
		cur := arg(0)
		saved := se.inOld
		se.inOld = true
		o := arg(0)
		se.inOld = saved
		return T{S: "(= " + cur.S + " " + o.S + ")", So: "Bool"}
	}
	short := x.Fn
	if i := strings.LastIndex(short, "."); i >= 0 {
		short = short[i+1:]
	}
	if p, ok := se.c.eng.db.Preds[short]; ok {
		return se.callPred(p, x.Args)
	}
	if pf, ok := se.c.eng.db.Pures[short]; ok {
		var args []T
		for i := range x.Args {
			args = append(args, arg(i))
		}
		return se.callPure(pf, args)
	}
	se.fail("unknown spec function %q", x.Fn)
	return T{}
}

func (se *SpecEnv) callPred(p *Pred, argExprs []Expr) T {
	if len(argExprs) != len(p.Params) {
		se.fail("pred %s: want %d args", p.Name, len(p.Params))
	}
	nb := map[string]T{}
	for i, prm := range p.Params {
		a := se.eval(argExprs[i])
		if a.So == "Nil" {
			_, so := se.resolveTypeIn(p.Pkg, prm.Type)
			a = se.nilOf(T{So: so})
		}
		if a.Ty == nil && prm.Type != "" {
			ty, _ := se.resolveTypeIn(p.Pkg, prm.Type)
			a.Ty = ty
		}
		nb[prm.Name] = a
	}
	sub := &SpecEnv{c: se.c, st: se.st, vars: nb, pkg: p.Pkg, old: se.old, snapOnly: se.snapOnly, inOld: se.inOld, fr: nil, bound: unshadow(se.bound, nb), nested: true, noFacts: se.noFacts, pol: se.pol}
	r := T{S: sub.evalBool(p.Body), So: "Bool"}
	se.facts = append(se.facts, sub.facts...)
	return r
}

// unshadow: the quantifier-bound variables visible inside the body of a spec function or predicate,
// i.e. those of the caller that the callee's own parameters do not shadow (without this a parameter
// named like a bound variable of the calling formula was captured by it).
func unshadow(bound map[string]T, params map[string]T) map[string]T {
	if len(bound) == 0 {
		return bound
	}
	out := map[string]T{}
	for k, v := range bound {
		if _, shadowed := params[k]; !shadowed {
			out[k] = v
		}
	}
	return out
}

func (se *SpecEnv) callPure(pf *PureFunc, args []T) T {
	if len(args) != len(pf.Params) {
		se.fail("pure func %s: want %d args, got %d", pf.Name, len(pf.Params), len(args))
	}
	rty, rso := se.resolveTypeIn(pf.Pkg, pf.Result)
	if pf.Body != nil {
		nb := map[string]T{}
		for i, prm := range pf.Params {
			a := args[i]
			if a.Ty == nil {
				ty, _ := se.resolveTypeIn(pf.Pkg, prm.Type)
				a.Ty = ty
			}
			nb[prm.Name] = a
		}
		sub := &SpecEnv{c: se.c, st: se.st, vars: nb, pkg: pf.Pkg, old: se.old, snapOnly: se.snapOnly, inOld: se.inOld, bound: unshadow(se.bound, nb), nested: true, noFacts: se.noFacts, pol: se.pol}
		t := sub.eval(pf.Body)
		se.facts = append(se.facts, sub.facts...)
		t.Ty = rty
		return t
	}
	var ps []string
	for _, prm := range pf.Params {
		_, so := se.resolveTypeIn(pf.Pkg, prm.Type)
		ps = append(ps, so)
	}
	fn := "pf_" + sanitize(pf.Name)
	se.c.reg.AddDecl("pure:"+pf.Name, "(declare-fun "+fn+" ("+strings.Join(ps, " ")+") "+rso+")")
	se.c.usedPures[pf.Name] = true
	if len(args) == 0 {
		return T{S: fn, So: rso, Ty: rty}
	}
	var as []string
	for i, a := range args {
		if a.So == "Nil" {
			a = se.nilOf(T{So: ps[i]})
		}
		as = append(as, a.S)
	}
	return T{S: "(" + fn + " " + strings.Join(as, " ") + ")", So: rso, Ty: rty}
}

func implementsIface(sub, super *types.Interface) bool {
	for i := 0; i < super.NumMethods(); i++ {
		m := super.Method(i)
		obj, _, _ := types.LookupFieldOrMethod(sub, false, m.Pkg(), m.Name())
		if obj == nil {
			return false
		}
	}
	return super.NumMethods() > 0
}

// prove / assumeF evaluate a formula for use as a proof goal resp. as an assumption (the
// well-typedness facts of loaded values are attached accordingly inside quantifiers).
func (se *SpecEnv) prove(e Expr) string {
	se.pol = 1
	defer func() { se.pol = 0 }()
	return se.evalBool(e)
}
func (se *SpecEnv) assumeF(e Expr) string {
	se.pol = -1
	defer func() { se.pol = 0 }()
	return se.evalBool(e)
}

// ---------- conjunct splitting (finer blame, smaller queries) ----------

// predPortable: the body of the predicate mentions no package-level names (only its parameters,
// ghost fields and spec functions), so it means the same when unfolded in another package.
func predPortable(p *Pred) bool {
	names := map[string]bool{"true": true, "false": true, "nil": true}
	for _, prm := range p.Params {
		names[prm.Name] = true
	}
	ok := true
	walkExpr(p.Body, func(x Expr) {
		if id, isId := x.(*EIdent); isId && !names[id.Name] {
			ok = false
		}
		if _, isQ := x.(*EQuant); isQ {
			ok = false
		}
	})
	return ok
}

func substExpr(e Expr, m map[string]Expr) Expr {
	switch x := e.(type) {
	case *EIdent:
		if r, ok := m[x.Name]; ok {
			return r
		}
		return x
	case *ESel:
		return &ESel{substExpr(x.X, m), x.F}
	case *EIndex:
		return &EIndex{substExpr(x.X, m), substExpr(x.I, m)}
	case *ESlice:
		r := &ESlice{X: substExpr(x.X, m)}
		if x.Lo != nil {
			r.Lo = substExpr(x.Lo, m)
		}
		if x.Hi != nil {
			r.Hi = substExpr(x.Hi, m)
		}
		return r
	case *ECall:
		r := &ECall{Fn: x.Fn}
		for _, a := range x.Args {
			r.Args = append(r.Args, substExpr(a, m))
		}
		return r
	case *EUnary:
		return &EUnary{x.Op, substExpr(x.X, m)}
	case *EBinary:
		return &EBinary{x.Op, substExpr(x.L, m), substExpr(x.R, m)}
	case *ECond:
		return &ECond{substExpr(x.C, m), substExpr(x.A, m), substExpr(x.B, m)}
	case *EQuant:
		m2 := map[string]Expr{}
		for k, v := range m {
			m2[k] = v
		}
		for _, v := range x.Vars {
			delete(m2, v.Name)
		}
		return &EQuant{x.Forall, x.Vars, substExpr(x.Body, m2)}
	}
	return e
}

// splitConjuncts flattens e into conjuncts: A && B, P ==> (A && B), and one level of predicate unfolding
// (only for predicates declared in the same package scope as the expression, to keep name resolution valid).
func (se *SpecEnv) splitConjuncts(e Expr, depth int) []Expr {
	switch x := e.(type) {
	case *EBinary:
		if x.Op == "&&" {
			return append(se.splitConjuncts(x.L, depth), se.splitConjuncts(x.R, depth)...)
		}
		if x.Op == "==>" {
			var out []Expr
			for _, c := range se.splitConjuncts(x.R, depth) {
				out = append(out, &EBinary{"==>", x.L, c})
			}
			return out
		}
	case *ECall:
		short := x.Fn
		if i := strings.LastIndex(short, "."); i >= 0 {
			short = short[i+1:]
		}
		if p, ok := se.c.eng.db.Preds[short]; ok && depth < 3 && (p.Pkg == se.pkg || predPortable(p)) && len(p.Params) == len(x.Args) {
			m := map[string]Expr{}
			for i, prm := range p.Params {
				m[prm.Name] = x.Args[i]
			}
			return se.splitConjuncts(substExpr(p.Body, m), depth+1)
		}
	}
	return []Expr{e}
}

// mentionsAny: does e mention any of the given identifiers?
func mentionsAny(e Expr, names map[string]bool) bool {
	found := false
	walkExpr(e, func(x Expr) {
		if id, ok := x.(*EIdent); ok && names[id.Name] {
			found = true
		}
		if q, ok := x.(*EQuant); ok {
			_ = q
		}
	})
	return found
}

func containsQuant(e Expr) bool {
	found := false
	walkExpr(e, func(x Expr) {
		if _, ok := x.(*EQuant); ok {
			found = true
		}
	})
	return found
}

// hoistGround replaces maximal ground memory-reading sub-expressions by fresh names bound in out.
func (se *SpecEnv) hoistGround(e Expr, bound map[string]bool, out map[string]T) Expr {
	if e == nil {
		return nil
	}
	hoistable := func(x Expr) bool {
		switch y := x.(type) {
		case *ESel, *EIndex:
			return true
		case *EUnary:
			return y.Op == "*"
		case *ECall:
			switch y.Fn {
			case "len", "cap", "old", "unbox", "root":
				return true
			}
		}
		return false
	}
	if hoistable(e) && !mentionsAny(e, bound) && !containsQuant(e) {
		// package-qualified constants (pkg.Name) are not worth hoisting; evaluate and check the sort
		var t T
		ok := func() (ok bool) {
			defer func() {
				if r := recover(); r != nil {
					if _, isSpec := r.(specErr); isSpec {
						ok = false
						return
					}
					panic(r)
				}
			}()
			t = se.eval(e)
			return true
		}()
		if ok && t.So != "Nil" && t.So != "Tuple" && strings.ContainsAny(t.S, " (") && (strings.Contains(t.S, "select") || strings.Contains(t.S, "_f")) {
			name := se.c.declare(se.st, "hg", t.So)
			se.st.assume("(= " + name + " " + t.S + ")")
			se.c.counter++
			key := fmt.Sprintf("hoisted$%d", se.c.counter)
			out[key] = T{S: name, So: t.So, Ty: t.Ty}
			return &EIdent{key}
		}
		return e
	}
	switch x := e.(type) {
	case *ESel:
		return &ESel{se.hoistGround(x.X, bound, out), x.F}
	case *EIndex:
		return &EIndex{se.hoistGround(x.X, bound, out), se.hoistGround(x.I, bound, out)}
	case *ESlice:
		return &ESlice{se.hoistGround(x.X, bound, out), se.hoistGround(x.Lo, bound, out), se.hoistGround(x.Hi, bound, out)}
	case *ECall:
		if x.Fn == "old" || x.Fn == "iserr" || x.Fn == "dyntype" || x.Fn == "unbox" || x.Fn == "implements" || x.Fn == "iface" {
			// do not descend: their arguments are evaluated in a special mode / are literals
			if x.Fn == "unbox" || x.Fn == "iface" {
				r := &ECall{Fn: x.Fn, Args: append([]Expr{se.hoistGround(x.Args[0], bound, out)}, x.Args[1:]...)}
				return r
			}
			return x
		}
		r := &ECall{Fn: x.Fn}
		for _, a := range x.Args {
			r.Args = append(r.Args, se.hoistGround(a, bound, out))
		}
		return r
	case *EUnary:
		if x.Op == "&" {
			return x
		}
		return &EUnary{x.Op, se.hoistGround(x.X, bound, out)}
	case *EBinary:
		return &EBinary{x.Op, se.hoistGround(x.L, bound, out), se.hoistGround(x.R, bound, out)}
	case *ECond:
		return &ECond{se.hoistGround(x.C, bound, out), se.hoistGround(x.A, bound, out), se.hoistGround(x.B, bound, out)}
	case *EQuant:
		b2 := map[string]bool{}
		for k := range bound {
			b2[k] = true
		}
		for _, v := range x.Vars {
			b2[v.Name] = true
		}
		return &EQuant{x.Forall, x.Vars, se.hoistGround(x.Body, b2, out)}
	}
	return e
}
