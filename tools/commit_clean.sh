#!/bin/sh
# Refuses to commit unless every registered check passes on the clean /repo tree.
cd /verif
out=$(tools/refresh.sh 2>&1)
if echo "$out" | grep -q "^VIOLATION\|WARNING"; then echo "$out" | grep "^VIOLATION\|WARNING\|^property" ; echo "NOT COMMITTING"; exit 1; fi
python3 tools/mkmanifest.py >/dev/null
git add -A && git commit -qm "$1" && echo "committed: $1"
