#!/bin/sh
# usage (from a snapshot of /verif):  vp run --with-repo -- tools/run_seeded_snap.sh [id...]
# Runs every seeded change against the checks of this snapshot, on the snapshot of /repo ($VP_RUN_REPO):
# nothing in /verif or /repo is touched. Prints DETECTED/MISSED per change.
export GOFLAGS=-mod=mod GOPROXY=off
here=$(pwd); repo=${VP_RUN_REPO:?needs --with-repo}
(cd govc && go build -o $here/bin/govc .) || exit 2
ids="$@"; [ -z "$ids" ] && ids=$(ls seeded)
for id in $ids; do
  prop=$(echo $id | cut -d- -f1)
  git -C $repo apply $here/seeded/$id/patch.diff 2>/dev/null || { echo "$id: PATCH DOES NOT APPLY"; continue; }
  out=$(VERIF_DIR=$here VERIF_REPO=$repo $here/bin/govc check $prop quick 2>&1)
  git -C $repo apply -R $here/seeded/$id/patch.diff
  v=$(echo "$out" | grep -c "^VIOLATION")
  echo "$id: $(echo "$out" | grep '^property' | cut -c1-110) -> $( [ $v -gt 0 ] && echo DETECTED || echo MISSED )"
done
