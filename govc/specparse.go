package main

// Parser for the //@ contract language (DESIGN.md §3.2, Appendix C).

import (
	"fmt"
	"os"
	"strings"
	"unicode"
)

// ---------- expression AST ----------

type Expr interface{ String() string }

type (
	EIdent struct{ Name string }
	EInt   struct{ V string }
	EStr   struct{ V string }
	ESel   struct {
		X Expr
		F string
	}
	EIndex struct{ X, I Expr }
	ESlice struct{ X, Lo, Hi Expr }
	ECall  struct {
		Fn   string
		Args []Expr
	}
	EUnary struct {
		Op string
		X  Expr
	}
	EBinary struct {
		Op   string
		L, R Expr
	}
	ECond  struct{ C, A, B Expr }
	EQuant struct {
		Forall bool
		Vars   []QVar
		Body   Expr
	}
)

type QVar struct{ Name, Type string }

func (e *EIdent) String() string  { return e.Name }
func (e *EInt) String() string    { return e.V }
func (e *EStr) String() string    { return fmt.Sprintf("%q", e.V) }
func (e *ESel) String() string    { return e.X.String() + "." + e.F }
func (e *EIndex) String() string  { return e.X.String() + "[" + e.I.String() + "]" }
func (e *ESlice) String() string  { return e.X.String() + "[:]" }
func (e *EUnary) String() string  { return e.Op + e.X.String() }
func (e *EBinary) String() string { return "(" + e.L.String() + " " + e.Op + " " + e.R.String() + ")" }
func (e *ECond) String() string {
	return "(" + e.C.String() + " ? " + e.A.String() + " : " + e.B.String() + ")"
}
func (e *ECall) String() string {
	var a []string
	for _, x := range e.Args {
		a = append(a, x.String())
	}
	return e.Fn + "(" + strings.Join(a, ", ") + ")"
}
func (e *EQuant) String() string {
	q := "exists"
	if e.Forall {
		q = "forall"
	}
	var v []string
	for _, x := range e.Vars {
		v = append(v, x.Name+" "+x.Type)
	}
	return "(" + q + " " + strings.Join(v, ", ") + " :: " + e.Body.String() + ")"
}

// ---------- lexer ----------

type tok struct {
	k string // "id","int","str","op","eof"
	s string
}

func lexSpec(src string) ([]tok, error) {
	var out []tok
	i := 0
	ops := []string{"<==>", "==>", "::", "&&", "||", "==", "!=", "<=", ">=", "<<", ">>", "&^"}
	for i < len(src) {
		c := src[i]
		switch {
		case c == ' ' || c == '\t' || c == '\n':
			i++
		case unicode.IsLetter(rune(c)) || c == '_' || c == '$':
			j := i
			for j < len(src) && (unicode.IsLetter(rune(src[j])) || unicode.IsDigit(rune(src[j])) || src[j] == '_' || src[j] == '$') {
				j++
			}
			out = append(out, tok{"id", src[i:j]})
			i = j
		case unicode.IsDigit(rune(c)):
			j := i
			for j < len(src) && (unicode.IsDigit(rune(src[j])) || src[j] == 'x' || src[j] == '_' || (src[j] >= 'a' && src[j] <= 'f') || (src[j] >= 'A' && src[j] <= 'F')) {
				j++
			}
			out = append(out, tok{"int", strings.ReplaceAll(src[i:j], "_", "")})
			i = j
		case c == '"':
			j := i + 1
			var sb strings.Builder
			for j < len(src) && src[j] != '"' {
				if src[j] == '\\' && j+1 < len(src) {
					j++
					switch src[j] {
					case 'n':
						sb.WriteByte('\n')
					case 't':
						sb.WriteByte('\t')
					case 'x':
						var v int
						fmt.Sscanf(src[j+1:j+3], "%02x", &v)
						sb.WriteByte(byte(v))
						j += 2
					default:
						sb.WriteByte(src[j])
					}
				} else {
					sb.WriteByte(src[j])
				}
				j++
			}
			if j >= len(src) {
				return nil, fmt.Errorf("unterminated string")
			}
			out = append(out, tok{"str", sb.String()})
			i = j + 1
		default:
			matched := false
			for _, op := range ops {
				if strings.HasPrefix(src[i:], op) {
					out = append(out, tok{"op", op})
					i += len(op)
					matched = true
					break
				}
			}
			if !matched {
				out = append(out, tok{"op", string(c)})
				i++
			}
		}
	}
	out = append(out, tok{"eof", ""})
	return out, nil
}

type sparser struct {
	t []tok
	p int
}

func (p *sparser) peek() tok { return p.t[p.p] }
func (p *sparser) next() tok { t := p.t[p.p]; p.p++; return t }
func (p *sparser) isOp(s string) bool {
	return p.t[p.p].k == "op" && p.t[p.p].s == s
}
func (p *sparser) accept(s string) bool {
	if p.isOp(s) {
		p.p++
		return true
	}
	return false
}
func (p *sparser) expect(s string) {
	if !p.accept(s) {
		panic(fmt.Sprintf("spec parse: expected %q, got %q (%v)", s, p.peek().s, p.rest()))
	}
}
func (p *sparser) rest() string {
	var s []string
	for _, t := range p.t[p.p:] {
		s = append(s, t.s)
	}
	return strings.Join(s, " ")
}

func ParseSpecExpr(src string) (e Expr, err error) {
	defer func() {
		if r := recover(); r != nil {
			err = fmt.Errorf("%v in %q", r, src)
		}
	}()
	toks, err := lexSpec(src)
	if err != nil {
		return nil, err
	}
	p := &sparser{t: toks}
	e = p.expr()
	if p.peek().k != "eof" {
		panic("trailing tokens: " + p.rest())
	}
	return e, nil
}

func (p *sparser) expr() Expr {
	if p.peek().k == "id" && (p.peek().s == "forall" || p.peek().s == "exists") {
		q := &EQuant{Forall: p.next().s == "forall"}
		for {
			name := p.next().s
			ty := p.typeString()
			q.Vars = append(q.Vars, QVar{name, ty})
			if !p.accept(",") {
				break
			}
		}
		p.expect("::")
		q.Body = p.expr()
		return q
	}
	return p.iff()
}

// typeString reads a type up to ',' or '::' or ')' at depth 0.
func (p *sparser) typeString() string {
	var sb strings.Builder
	depth := 0
	for {
		t := p.peek()
		if t.k == "eof" {
			break
		}
		if t.k == "op" && depth == 0 && (t.s == "," || t.s == "::" || t.s == ")" || t.s == "=") {
			break
		}
		if t.k == "op" && (t.s == "[" || t.s == "(") {
			depth++
		}
		if t.k == "op" && (t.s == "]" || t.s == ")") {
			depth--
		}
		sb.WriteString(t.s)
		p.next()
	}
	return sb.String()
}

func (p *sparser) iff() Expr {
	l := p.implies()
	for p.accept("<==>") {
		r := p.implies()
		l = &EBinary{"<==>", l, r}
	}
	return l
}
func (p *sparser) implies() Expr {
	l := p.cond()
	if p.accept("==>") {
		var r Expr
		if p.peek().k == "id" && (p.peek().s == "forall" || p.peek().s == "exists") {
			r = p.expr()
		} else {
			r = p.implies()
		}
		return &EBinary{"==>", l, r}
	}
	return l
}
func (p *sparser) cond() Expr {
	c := p.or()
	if p.accept("?") {
		a := p.or()
		p.expect(":")
		b := p.cond()
		return &ECond{c, a, b}
	}
	return c
}
func (p *sparser) or() Expr {
	l := p.and()
	for p.accept("||") {
		l = &EBinary{"||", l, p.and()}
	}
	return l
}
func (p *sparser) and() Expr {
	l := p.cmp()
	for p.accept("&&") {
		var r Expr
		if p.peek().k == "id" && (p.peek().s == "forall" || p.peek().s == "exists") {
			r = p.expr()
		} else {
			r = p.cmp()
		}
		l = &EBinary{"&&", l, r}
	}
	return l
}
func (p *sparser) cmp() Expr {
	l := p.add()
	for {
		t := p.peek()
		if t.k == "op" && (t.s == "==" || t.s == "!=" || t.s == "<" || t.s == "<=" || t.s == ">" || t.s == ">=") {
			p.next()
			l = &EBinary{t.s, l, p.add()}
		} else {
			return l
		}
	}
}
func (p *sparser) add() Expr {
	l := p.mul()
	for {
		t := p.peek()
		if t.k == "op" && (t.s == "+" || t.s == "-") {
			p.next()
			l = &EBinary{t.s, l, p.mul()}
		} else {
			return l
		}
	}
}
func (p *sparser) mul() Expr {
	l := p.unary()
	for {
		t := p.peek()
		if t.k == "op" && (t.s == "*" || t.s == "/" || t.s == "%" || t.s == "<<" || t.s == ">>") {
			p.next()
			l = &EBinary{t.s, l, p.unary()}
		} else {
			return l
		}
	}
}
func (p *sparser) unary() Expr {
	t := p.peek()
	if t.k == "op" && (t.s == "!" || t.s == "-" || t.s == "&" || t.s == "*") {
		p.next()
		return &EUnary{t.s, p.unary()}
	}
	return p.postfix()
}
func (p *sparser) postfix() Expr {
	e := p.primary()
	for {
		switch {
		case p.accept("."):
			e = &ESel{e, p.next().s}
		case p.accept("["):
			if p.accept(":") {
				var hi Expr
				if !p.isOp("]") {
					hi = p.expr()
				}
				p.expect("]")
				e = &ESlice{e, nil, hi}
				continue
			}
			i := p.expr()
			if p.accept(":") {
				var hi Expr
				if !p.isOp("]") {
					hi = p.expr()
				}
				p.expect("]")
				e = &ESlice{e, i, hi}
				continue
			}
			p.expect("]")
			e = &EIndex{e, i}
		case p.isOp("("):
			id, ok := e.(*EIdent)
			if !ok {
				// method-ish call on selector: pkg.fn(...)
				if s, ok2 := e.(*ESel); ok2 {
					if x, ok3 := s.X.(*EIdent); ok3 {
						id = &EIdent{x.Name + "." + s.F}
						ok = true
					}
				}
			}
			if !ok {
				panic("call of non-identifier")
			}
			p.next()
			var args []Expr
			for !p.isOp(")") {
				args = append(args, p.expr())
				if !p.accept(",") {
					break
				}
			}
			p.expect(")")
			e = &ECall{id.Name, args}
		default:
			return e
		}
	}
}
func (p *sparser) primary() Expr {
	t := p.next()
	switch t.k {
	case "id":
		return &EIdent{t.s}
	case "int":
		return &EInt{t.s}
	case "str":
		return &EStr{t.s}
	case "op":
		if t.s == "(" {
			e := p.expr()
			p.expect(")")
			return e
		}
	}
	panic(fmt.Sprintf("unexpected token %q (rest: %s)", t.s, p.rest()))
}

// ---------- contract blocks ----------

type Clause struct {
	Kind                string   // requires ensures assigns decreases loopinv loopassigns loopunroll panicsif
	Tags                []string // property ids
	Loop                int
	Text                string
	E                   Expr   // for requires/ensures/loopinv/panicsif/decreases
	Locs                []Expr // for assigns
	Site                int    // before/after clauses: call-site ordinal (-1: every site)
	IfLocal, IfNotLocal string // before clauses: applies only where this local is (is not) defined
	Line                int
	File                string
	Callee              string // aftercall: callee name (suffix match)
	With                string // aftercall: closure argument name
}

func (c *Clause) Hash() string {
	return shortHash(c.Kind + "|" + fmt.Sprint(c.Loop) + "|" + normSpace(c.Text))
}

type Contract struct {
	Pkg      string // package path the block lives in (scope for names)
	Kind     string // func interface-method functype
	Name     string // function rel name e.g. (*T).M or f or f$1 ; for iface methods "Type.Method"
	Params   []string
	Results  []string
	Clauses  []*Clause
	Flags    map[string]bool // inline abstracted bitprecise nooverflow pure trusted noalloc prune
	FlagArgs map[string]string
	File     string
	Line     int
	Trusted  bool // from an external spec: assumed, not verified
}

type PureFunc struct {
	Pkg    string
	Name   string
	Params []QVar
	Result string
	Body   Expr // may be nil (uninterpreted)
}
type Pred struct {
	Pkg    string
	Name   string
	Params []QVar
	Body   Expr
}

// LocMacro: a named list of locations, "locs name(params) = loc, loc, ..." usable in assigns clauses.
type LocMacro struct {
	Pkg    string
	Name   string
	Params []QVar
	Locs   []Expr
}

// Sweep: a schematic contract, "sweep[tags] assigns nothing: T1, T2, func f, *": every function of the
// package with one of the listed receiver types (or names; * = all) that has no contract of its own
// gets the contract "assigns nothing"; explicit contracts that already say "assigns nothing" get the tags.
type Sweep struct {
	Pkg   string
	Tags  []string
	Names map[string]bool
	File  string
	Line  int
}
type Axiom struct {
	Pkg   string
	Name  string
	Body  Expr
	Text  string
	Lemma bool
	File  string
}
type GhostField struct {
	Pkg     string
	Type    string // owner type as written
	Name    string
	Sort    string // type string
	Mutable bool
}

type SpecDB struct {
	Contracts  map[string]*Contract // key pkg + "::" + name
	IfaceMeths map[string]*Contract // key pkg.Type.Method
	FuncTypes  map[string]*Contract // key pkg.Type
	Pures      map[string]*PureFunc // key name (global namespace)
	Preds      map[string]*Pred
	LocMacros  map[string]*LocMacro
	Sweeps     []*Sweep
	Axioms     []*Axiom
	Ghosts     map[string]*GhostField // key "Type.name" (Type qualified pkgpath.Type)
	Sorts      map[string]bool
	ConstGlobs map[string]bool // pkg.name
	Sentinels  map[string]bool
	Files      []string
}

func NewSpecDB() *SpecDB {
	return &SpecDB{Contracts: map[string]*Contract{}, IfaceMeths: map[string]*Contract{}, FuncTypes: map[string]*Contract{},
		Pures: map[string]*PureFunc{}, Preds: map[string]*Pred{}, LocMacros: map[string]*LocMacro{}, Ghosts: map[string]*GhostField{}, Sorts: map[string]bool{}, ConstGlobs: map[string]bool{}, Sentinels: map[string]bool{}}
}

func normSpace(s string) string { return strings.Join(strings.Fields(s), " ") }

// ParseSpecFile reads a contract file. pkgPath is the default package scope
// (for files in /repo it is the package of the directory; external spec files
// set it with "//@ package <path>").
func (db *SpecDB) ParseSpecFile(path, pkgPath string, trusted bool) error {
	data, err := os.ReadFile(path)
	if err != nil {
		return err
	}
	db.Files = append(db.Files, path)
	lines := strings.Split(string(data), "\n")
	var cur *Contract
	var lastClause *Clause
	var pendingText *string // for multi-line pure/pred/axiom bodies
	var pendingFinish func(string) error
	flush := func() error {
		if pendingFinish != nil {
			f := pendingFinish
			pendingFinish = nil
			t := *pendingText
			pendingText = nil
			return f(t)
		}
		return nil
	}
	finishClause := func() error {
		if lastClause == nil {
			return nil
		}
		c := lastClause
		lastClause = nil
		if c.Kind == "assigns" || c.Kind == "loopassigns" {
			txt := strings.TrimSpace(c.Text)
			if txt == "nothing" || txt == "" {
				return nil
			}
			for _, part := range splitTop(txt, ',') {
				e, err := ParseSpecExpr(part)
				if err != nil {
					return fmt.Errorf("%s:%d: %v", path, c.Line, err)
				}
				c.Locs = append(c.Locs, e)
			}
			return nil
		}
		if c.Kind == "loopunroll" || c.Kind == "returns" {
			return nil
		}
		e, err := ParseSpecExpr(c.Text)
		if err != nil {
			return fmt.Errorf("%s:%d: %v", path, c.Line, err)
		}
		c.E = e
		return nil
	}
	for ln, raw := range lines {
		l := strings.TrimSpace(raw)
		if !strings.HasPrefix(l, "//@") {
			continue
		}
		l = strings.TrimSpace(l[3:])
		if l == "" || strings.HasPrefix(l, "--") {
			continue
		}
		// strip trailing comment " -- ..."
		if i := strings.Index(l, " -- "); i >= 0 {
			l = strings.TrimSpace(l[:i])
		}
		word, rest := splitWord(l)
		isHeader := false
		switch word {
		case "package", "func", "interface", "functype", "pure", "pred", "locs", "sweep", "axiom", "lemma", "ghost", "sort", "constglobal", "sentinel",
			"requires", "ensures", "rejects", "assigns", "decreases", "loop", "after", "before", "returns", "inline", "abstracted", "bitprecise", "nooverflow", "panics-if", "trusted", "noalloc", "prune", "maxpaths", "timeout", "noinline", "nosafety":
			isHeader = true
		}
		if !isHeader || strings.HasPrefix(word, "requires[") {
			// continuation or tagged clause
			if strings.HasPrefix(word, "requires[") || strings.HasPrefix(word, "ensures[") || strings.HasPrefix(word, "sweep[") || strings.HasPrefix(word, "assigns[") || strings.HasPrefix(word, "rejects[") {
				isHeader = true
			}
		}
		if !isHeader {
			// continuation line
			if pendingText != nil {
				*pendingText += " " + l
			} else if lastClause != nil {
				lastClause.Text += " " + l
			} else {
				return fmt.Errorf("%s:%d: stray line %q", path, ln+1, l)
			}
			continue
		}
		if err := finishClause(); err != nil {
			return err
		}
		if err := flush(); err != nil {
			return err
		}
		kw := word
		var tags []string
		if i := strings.Index(word, "["); i >= 0 && strings.HasSuffix(word, "]") {
			kw = word[:i]
			tags = strings.Split(word[i+1:len(word)-1], ",")
		}
		switch kw {
		case "package":
			pkgPath = rest
			cur = nil
		case "sort":
			db.Sorts[rest] = true
		case "constglobal":
			db.ConstGlobs[pkgPath+"."+rest] = true
		case "sentinel":
			// sentinel <var>: a package-level error variable created once by errors.New and never reassigned:
			// non-nil, pointer-shaped (so == is identity)
			db.Sentinels[pkgPath+"."+rest] = true
		case "func":
			cur = &Contract{Pkg: pkgPath, Kind: "func", Flags: map[string]bool{}, FlagArgs: map[string]string{}, File: path, Line: ln + 1, Trusted: trusted}
			parseFuncHeader(cur, rest)
			key := pkgPath + "::" + cur.Name
			if _, dup := db.Contracts[key]; dup {
				return fmt.Errorf("%s:%d: duplicate contract for %s", path, ln+1, key)
			}
			db.Contracts[key] = cur
		case "interface":
			// "interface datamodel.Node.Kind() (k)" : one block per method
			cur = &Contract{Pkg: pkgPath, Kind: "iface", Flags: map[string]bool{}, FlagArgs: map[string]string{}, File: path, Line: ln + 1, Trusted: true}
			parseFuncHeader(cur, rest)
			db.IfaceMeths[pkgPath+"|"+cur.Name] = cur // package-qualified until canonicalised (two packages may both have a "Type.Name")
		case "functype":
			cur = &Contract{Pkg: pkgPath, Kind: "functype", Flags: map[string]bool{}, FlagArgs: map[string]string{}, File: path, Line: ln + 1, Trusted: true}
			parseFuncHeader(cur, rest)
			db.FuncTypes[pkgPath+"|"+cur.Name] = cur
		case "pure":
			// pure func name(a T, b U) R [= expr]
			w2, r2 := splitWord(rest)
			if w2 != "func" {
				return fmt.Errorf("%s:%d: expected 'pure func'", path, ln+1)
			}
			t := r2
			pendingText = &t
			pk := pkgPath
			pendingFinish = func(txt string) error {
				pf, err := parsePure(txt)
				if err != nil {
					return fmt.Errorf("%s:%d: %v", path, ln+1, err)
				}
				pf.Pkg = pk
				db.Pures[pf.Name] = pf
				return nil
			}
			cur = nil
		case "pred":
			t := rest
			pendingText = &t
			pk := pkgPath
			pendingFinish = func(txt string) error {
				pf, err := parsePure(txt + "")
				if err != nil {
					return fmt.Errorf("%s:%d: %v", path, ln+1, err)
				}
				db.Preds[pf.Name] = &Pred{Pkg: pk, Name: pf.Name, Params: pf.Params, Body: pf.Body}
				return nil
			}
			cur = nil
		case "sweep":
			t := rest
			pendingText = &t
			pk := pkgPath
			tags := []string{}
			if i := strings.Index(word, "["); i >= 0 && strings.HasSuffix(word, "]") {
				tags = strings.Split(word[i+1:len(word)-1], ",")
			}
			lineNo := ln + 1
			pendingFinish = func(txt string) error {
				i := strings.Index(txt, ":")
				if i < 0 || normSpace(txt[:i]) != "assigns nothing" {
					return fmt.Errorf("%s:%d: sweep[tags] assigns nothing: names", path, lineNo)
				}
				sw := &Sweep{Pkg: pk, Tags: tags, Names: map[string]bool{}, File: path, Line: lineNo}
				for _, n := range strings.Split(txt[i+1:], ",") {
					if n = normSpace(n); n != "" {
						// a package-level function is written "f()" (or "func f")
						if strings.HasSuffix(n, "()") {
							n = "func " + strings.TrimSuffix(n, "()")
						}
						sw.Names[n] = true
					}
				}
				db.Sweeps = append(db.Sweeps, sw)
				return nil
			}
			cur = nil
		case "locs":
			t := rest
			pendingText = &t
			pk := pkgPath
			pendingFinish = func(txt string) error {
				i := strings.Index(txt, "=")
				if i < 0 {
					return fmt.Errorf("%s:%d: locs needs 'name(params) = loc, ...'", path, ln+1)
				}
				pf, err := parsePure(strings.TrimSpace(txt[:i]) + " bool")
				if err != nil {
					return fmt.Errorf("%s:%d: %v", path, ln+1, err)
				}
				lm := &LocMacro{Pkg: pk, Name: pf.Name, Params: pf.Params}
				for _, part := range splitTop(txt[i+1:], ',') {
					e, err := ParseSpecExpr(part)
					if err != nil {
						return fmt.Errorf("%s:%d: %v", path, ln+1, err)
					}
					lm.Locs = append(lm.Locs, e)
				}
				db.LocMacros[lm.Name] = lm
				return nil
			}
			cur = nil
		case "axiom", "lemma":
			t := rest
			pendingText = &t
			pk := pkgPath
			isLemma := kw == "lemma"
			pendingFinish = func(txt string) error {
				i := strings.Index(txt, ":")
				if i < 0 {
					return fmt.Errorf("%s:%d: axiom needs 'name: expr'", path, ln+1)
				}
				e, err := ParseSpecExpr(txt[i+1:])
				if err != nil {
					return fmt.Errorf("%s:%d: %v", path, ln+1, err)
				}
				db.Axioms = append(db.Axioms, &Axiom{Pkg: pk, Name: strings.TrimSpace(txt[:i]), Body: e, Text: normSpace(txt[i+1:]), Lemma: isLemma, File: path})
				return nil
			}
			cur = nil
		case "ghost":
			// ghost field Type.name sort [mutable]
			f := strings.Fields(rest)
			if len(f) < 3 || f[0] != "field" {
				return fmt.Errorf("%s:%d: ghost field Type.name sort", path, ln+1)
			}
			i := strings.LastIndex(f[1], ".")
			g := &GhostField{Pkg: pkgPath, Type: f[1][:i], Name: f[1][i+1:], Sort: f[2], Mutable: len(f) > 3 && f[3] == "mutable"}
			db.Ghosts[g.Type+"."+g.Name] = g
		case "requires", "ensures", "decreases", "panics-if", "rejects":
			if cur == nil {
				return fmt.Errorf("%s:%d: clause outside block", path, ln+1)
			}
			k := kw
			if k == "panics-if" {
				k = "panicsif"
			}
			lastClause = &Clause{Kind: k, Tags: tags, Text: rest, Line: ln + 1, File: path}
			cur.Clauses = append(cur.Clauses, lastClause)
		case "assigns":
			if cur == nil {
				return fmt.Errorf("%s:%d: clause outside block", path, ln+1)
			}
			lastClause = &Clause{Kind: "assigns", Text: rest, Line: ln + 1, File: path, Tags: tags}
			cur.Clauses = append(cur.Clauses, lastClause)
		case "loop":
			if cur == nil {
				return fmt.Errorf("%s:%d: clause outside block", path, ln+1)
			}
			var n int
			w2, r2 := splitWord(rest)
			fmt.Sscanf(w2, "%d", &n)
			w3, r3 := splitWord(r2)
			var ltags []string
			if i := strings.Index(w3, "["); i >= 0 && strings.HasSuffix(w3, "]") {
				ltags = strings.Split(w3[i+1:len(w3)-1], ",")
				w3 = w3[:i]
			}
			switch w3 {
			case "invariant":
				lastClause = &Clause{Kind: "loopinv", Loop: n, Tags: ltags, Text: r3, Line: ln + 1, File: path}
			case "assigns":
				lastClause = &Clause{Kind: "loopassigns", Loop: n, Text: r3, Line: ln + 1, File: path}
			case "unroll":
				lastClause = &Clause{Kind: "loopunroll", Loop: n, Text: r3, Line: ln + 1, File: path}
			case "decreases":
				lastClause = &Clause{Kind: "loopdecreases", Loop: n, Text: r3, Line: ln + 1, File: path}
			default:
				return fmt.Errorf("%s:%d: bad loop clause %q", path, ln+1, w3)
			}
			cur.Clauses = append(cur.Clauses, lastClause)
		case "returns":
			// returns <result name> <type>: the dynamic type of an interface result (proved, then used to devirtualise calls)
			if cur == nil {
				return fmt.Errorf("%s:%d: clause outside block", path, ln+1)
			}
			w2, r2 := splitWord(rest)
			cur.Clauses = append(cur.Clauses, &Clause{Kind: "returns", Text: r2, Callee: w2, Line: ln + 1, File: path})
			lastClause = nil
		case "before":
			// before <callee> [with <closure>] assert[tags] <expr> : proof obligation at every matching call site
			if cur == nil {
				return fmt.Errorf("%s:%d: clause outside block", path, ln+1)
			}
			rest += " "
			i := strings.Index(rest, " assert")
			if i < 0 {
				return fmt.Errorf("%s:%d: before ... assert <expr>", path, ln+1)
			}
			head := strings.Fields(rest[:i])
			tail := rest[i+7:]
			var btags []string
			if strings.HasPrefix(tail, "[") {
				j := strings.Index(tail, "]")
				btags = strings.Split(strings.ReplaceAll(tail[1:j], " ", ""), ",")
				tail = tail[j+1:]
			}
			cl := &Clause{Kind: "beforecall", Tags: btags, Text: strings.TrimSpace(tail), Line: ln + 1, File: path, Callee: head[0], Site: -1}
			// <callee>@N: only the N-th call site of that callee (source order, from 0)
			if j := strings.Index(cl.Callee, "@"); j >= 0 {
				fmt.Sscanf(cl.Callee[j+1:], "%d", &cl.Site)
				cl.Callee = cl.Callee[:j]
			}
			if len(head) >= 3 && head[1] == "with" {
				cl.With = head[2]
			}
			// "if <local>" / "ifnot <local>": only at call sites where that local variable has
			// (has not) been defined on the path reaching the call
			for hi := 1; hi+1 < len(head); hi++ {
				if head[hi] == "if" {
					cl.IfLocal = head[hi+1]
				} else if head[hi] == "ifnot" {
					cl.IfNotLocal = head[hi+1]
				}
			}
			lastClause = cl
			cur.Clauses = append(cur.Clauses, lastClause)
		case "after":
			// after <callee> [with <closure>] assume <expr>
			if cur == nil {
				return fmt.Errorf("%s:%d: clause outside block", path, ln+1)
			}
			rest += " "
			// after <callee> let <ghost> = <expr>: names a value (typically a result) for later clauses; no assumption
			if i := strings.Index(rest, " let "); i >= 0 && !strings.Contains(rest[:i], " assume ") {
				head := strings.Fields(rest[:i])
				body := rest[i+5:]
				j := strings.Index(body, "=")
				if j < 0 || len(head) == 0 {
					return fmt.Errorf("%s:%d: after <callee> let <name> = <expr>", path, ln+1)
				}
				cl := &Clause{Kind: "afterlet", Text: strings.TrimSpace(body[j+1:]), Line: ln + 1, File: path, Callee: head[0], Site: -1, With: strings.TrimSpace(body[:j])}
				if k := strings.Index(cl.Callee, "@"); k >= 0 {
					fmt.Sscanf(cl.Callee[k+1:], "%d", &cl.Site)
					cl.Callee = cl.Callee[:k]
				}
				lastClause = cl
				cur.Clauses = append(cur.Clauses, lastClause)
				break
			}
			i := strings.Index(rest, " assume ")
			if i < 0 {
				return fmt.Errorf("%s:%d: after ... assume <expr>", path, ln+1)
			}
			head := strings.Fields(rest[:i])
			cl := &Clause{Kind: "aftercall", Text: strings.TrimSpace(rest[i+8:]), Line: ln + 1, File: path, Callee: head[0], Site: -1}
			if j := strings.Index(cl.Callee, "@"); j >= 0 {
				fmt.Sscanf(cl.Callee[j+1:], "%d", &cl.Site)
				cl.Callee = cl.Callee[:j]
			}
			if len(head) >= 3 && head[1] == "with" {
				cl.With = head[2]
			}
			lastClause = cl
			cur.Clauses = append(cur.Clauses, lastClause)
		case "inline", "abstracted", "bitprecise", "nooverflow", "trusted", "noalloc", "prune", "noinline", "nosafety":
			if cur == nil {
				return fmt.Errorf("%s:%d: flag outside block", path, ln+1)
			}
			cur.Flags[kw] = true
			if kw == "trusted" {
				cur.Trusted = true
			}
		case "maxpaths", "timeout":
			if cur == nil {
				return fmt.Errorf("%s:%d: flag outside block", path, ln+1)
			}
			cur.FlagArgs[kw] = rest
		}
	}
	if err := finishClause(); err != nil {
		return err
	}
	return flush()
}

func splitWord(s string) (string, string) {
	s = strings.TrimSpace(s)
	i := strings.IndexAny(s, " \t")
	if i < 0 {
		return s, ""
	}
	// keep "requires[C01, C02]" together if spaces inside brackets
	if j := strings.Index(s, "["); j >= 0 && j < i {
		if k := strings.Index(s, "]"); k > i {
			return strings.ReplaceAll(s[:k+1], " ", ""), strings.TrimSpace(s[k+1:])
		}
	}
	return s[:i], strings.TrimSpace(s[i+1:])
}

// splitTop splits at sep occurring at bracket depth 0.
func splitTop(s string, sep byte) []string {
	var out []string
	depth := 0
	last := 0
	inStr := false
	for i := 0; i < len(s); i++ {
		c := s[i]
		if c == '"' {
			inStr = !inStr
		}
		if inStr {
			continue
		}
		switch c {
		case '(', '[':
			depth++
		case ')', ']':
			depth--
		}
		if c == sep && depth == 0 {
			out = append(out, strings.TrimSpace(s[last:i]))
			last = i + 1
		}
	}
	out = append(out, strings.TrimSpace(s[last:]))
	return out
}

// parseFuncHeader: "(*T).M(a, b) (r, err)" | "f(a)" | "f" | "pkg.Type.Method(a) (r)"
func parseFuncHeader(c *Contract, s string) {
	s = strings.TrimSpace(s)
	// find the parameter list: the first '(' that is not part of a leading receiver "(*T)"
	nameEnd := len(s)
	i := 0
	if strings.HasPrefix(s, "(") {
		i = strings.Index(s, ")") + 1
	}
	if j := strings.Index(s[i:], "("); j >= 0 {
		nameEnd = i + j
	}
	c.Name = strings.TrimSpace(s[:nameEnd])
	rest := strings.TrimSpace(s[nameEnd:])
	c.Params = nil
	c.Results = nil
	if rest == "" {
		return
	}
	// params
	k := matchParen(rest, 0)
	ps := strings.TrimSpace(rest[1:k])
	if ps != "" {
		for _, p := range splitTop(ps, ',') {
			c.Params = append(c.Params, strings.Fields(p)[0])
		}
	} else {
		c.Params = []string{}
	}
	rest = strings.TrimSpace(rest[k+1:])
	if strings.HasPrefix(rest, "(") {
		k = matchParen(rest, 0)
		for _, p := range splitTop(rest[1:k], ',') {
			c.Results = append(c.Results, strings.Fields(p)[0])
		}
	}
}

func matchParen(s string, i int) int {
	depth := 0
	for j := i; j < len(s); j++ {
		switch s[j] {
		case '(':
			depth++
		case ')':
			depth--
			if depth == 0 {
				return j
			}
		}
	}
	return len(s) - 1
}

// parsePure: "name(a T, b U) R = expr" or "name(a T) R"
func parsePure(s string) (*PureFunc, error) {
	s = strings.TrimSpace(s)
	i := strings.Index(s, "(")
	if i < 0 {
		return nil, fmt.Errorf("bad pure func %q", s)
	}
	pf := &PureFunc{Name: strings.TrimSpace(s[:i])}
	k := matchParen(s, i)
	ps := strings.TrimSpace(s[i+1 : k])
	if ps != "" {
		for _, p := range splitTop(ps, ',') {
			w, r := splitWord(p)
			pf.Params = append(pf.Params, QVar{w, strings.TrimSpace(r)})
		}
	}
	rest := strings.TrimSpace(s[k+1:])
	body := ""
	// find top-level '=' that is not '==' etc.
	eq := -1
	for j := 0; j < len(rest); j++ {
		if rest[j] == '=' {
			if j+1 < len(rest) && (rest[j+1] == '=' || rest[j+1] == '>') {
				break
			}
			if j > 0 && (rest[j-1] == '!' || rest[j-1] == '<' || rest[j-1] == '>' || rest[j-1] == '=') {
				break
			}
			eq = j
			break
		}
	}
	if eq >= 0 {
		body = strings.TrimSpace(rest[eq+1:])
		rest = strings.TrimSpace(rest[:eq])
	}
	pf.Result = rest
	if pf.Result == "" {
		pf.Result = "bool"
	}
	if body != "" {
		e, err := ParseSpecExpr(body)
		if err != nil {
			return nil, err
		}
		pf.Body = e
	}
	return pf, nil
}
