package main

// Constant package-level variables: read the composite-literal initialiser
// out of the package's init function (DESIGN.md §3.4, "Globals").

import (
	"fmt"
	"go/types"

	"golang.org/x/tools/go/ssa"
)

// constGlobalValue materialises the initial value of global g as facts about the
// current memory (sound as long as nothing outside init writes g or its backing
// storage; that is checked syntactically for g itself in checkConstGlobal).
func (e *Engine) constGlobalValue(c *Ctx, st *State, g *ssa.Global) (T, bool) {
	initFn := g.Pkg.Func("init")
	if initFn == nil {
		return T{}, false
	}
	var stores []*ssa.Store
	for _, b := range initFn.Blocks {
		for _, in := range b.Instrs {
			if s, ok := in.(*ssa.Store); ok && rootGlobal(s.Addr) == g {
				stores = append(stores, s)
			}
		}
	}
	allocs := map[*ssa.Alloc]string{}
	var eval func(v ssa.Value) (T, bool)
	var addrOf func(v ssa.Value) (string, bool)
	addrOf = func(v ssa.Value) (string, bool) {
		switch x := v.(type) {
		case *ssa.Global:
			return c.reg.Global(x.Pkg.Pkg.Path() + "." + x.Name()), true
		case *ssa.Alloc:
			if a, ok := allocs[x]; ok {
				return a, true
			}
			n := c.declare(st, "cg", "Int")
			st.assume("(and (<= 1 " + n + ") (<= " + n + " " + c.h0 + "))")
			a := "(base " + n + ")"
			allocs[x] = a
			// materialise stores into this alloc
			for _, b := range initFn.Blocks {
				for _, in := range b.Instrs {
					s, ok := in.(*ssa.Store)
					if !ok {
						continue
					}
					if rootAlloc(s.Addr) != x {
						continue
					}
					ad, ok1 := addrOf(s.Addr)
					val, ok2 := eval(s.Val)
					if ok1 && ok2 {
						cur := c.loadWith(func(k string) string { return c.mem(st, k) }, ad, s.Val.Type())
						st.assume("(= " + cur + " " + val.S + ")")
					}
				}
			}
			return a, true
		case *ssa.IndexAddr:
			p, ok := addrOf(x.X)
			i, ok2 := eval(x.Index)
			if !ok || !ok2 {
				return "", false
			}
			return fmt.Sprintf("(elem %s %s)", p, i.S), true
		case *ssa.FieldAddr:
			p, ok := addrOf(x.X)
			if !ok {
				return "", false
			}
			return fmt.Sprintf("(fld %s %d)", p, x.Field), true
		}
		return "", false
	}
	eval = func(v ssa.Value) (T, bool) {
		switch x := v.(type) {
		case *ssa.Const:
			return c.constOf(x), true
		case *ssa.Alloc:
			a, ok := addrOf(x)
			return T{S: a, So: "Addr", Ty: x.Type()}, ok
		case *ssa.Slice:
			if x.Low != nil || x.High != nil || x.Max != nil {
				return T{}, false
			}
			a, ok := addrOf(x.X)
			if !ok {
				return T{}, false
			}
			arr, ok := x.X.Type().Underlying().(*types.Pointer).Elem().Underlying().(*types.Array)
			if !ok {
				return T{}, false
			}
			return T{S: fmt.Sprintf("(mk_slice %s 0 %d %d)", a, arr.Len(), arr.Len()), So: "Slice", Ty: x.Type()}, true
		case *ssa.Convert:
			if c.reg.SortOf(x.Type()) == "Int" && c.reg.SortOf(x.X.Type()) == "Int" {
				t, ok := eval(x.X)
				return t, ok
			}
		}
		return T{}, false
	}
	gaddr := c.reg.Global(g.Pkg.Pkg.Path() + "." + g.Name())
	gT := g.Type().Underlying().(*types.Pointer).Elem()
	covered := map[string]bool{}
	for _, sto := range stores {
		ad, ok1 := addrOf(sto.Addr)
		val, ok2 := eval(sto.Val)
		if !ok1 || !ok2 {
			return T{}, false
		}
		cur := c.loadWith(func(k string) string { return c.mem(st, k) }, ad, sto.Val.Type())
		st.assume("(= " + cur + " " + val.S + ")")
		for _, lp := range c.leafPaths(sto.Val.Type(), nil) {
			covered[applyPath(ad, lp.path)] = true
		}
	}
	for _, lp := range c.leafPaths(gT, nil) {
		a := applyPath(gaddr, lp.path)
		if !covered[a] {
			cur := c.loadWith(func(k string) string { return c.mem(st, k) }, a, lp.ty)
			st.assume("(= " + cur + " " + c.zero(lp.ty) + ")")
		}
	}
	return c.load(st, gaddr, gT), true
}

func rootGlobal(v ssa.Value) *ssa.Global {
	for {
		switch x := v.(type) {
		case *ssa.Global:
			return x
		case *ssa.IndexAddr:
			v = x.X
		case *ssa.FieldAddr:
			v = x.X
		default:
			return nil
		}
	}
}

func rootAlloc(v ssa.Value) *ssa.Alloc {
	for {
		switch x := v.(type) {
		case *ssa.Alloc:
			return x
		case *ssa.IndexAddr:
			v = x.X
		case *ssa.FieldAddr:
			v = x.X
		default:
			return nil
		}
	}
}

// checkConstGlobal: no function other than init stores to g.
func (e *Engine) checkConstGlobal(full string) error {
	for _, fn := range e.funcs {
		if fn.Name() == "init" && fn.Parent() == nil {
			continue
		}
		for _, b := range fn.Blocks {
			for _, in := range b.Instrs {
				if s, ok := in.(*ssa.Store); ok {
					if g, ok := s.Addr.(*ssa.Global); ok && g.Pkg.Pkg.Path()+"."+g.Name() == full {
						return fmt.Errorf("constglobal %s is stored to in %s", full, fn)
					}
				}
			}
		}
	}
	return nil
}
