package main

// Calls: builtins, contracts (modular), inlining, interface dispatch, frames,
// loop cut points (DESIGN.md §3.5, §3.7, §3.8).

import (
	"fmt"
	"go/ast"
	"go/types"
	"strconv"
	"strings"

	"golang.org/x/tools/go/ssa"
)

func relFuncName(fn *ssa.Function) string {
	if fn.Pkg != nil {
		return fn.RelString(fn.Pkg.Pkg)
	}
	if fn.Package() != nil {
		return fn.RelString(fn.Package().Pkg)
	}
	return fn.String()
}

func funcPkgPath(fn *ssa.Function) string {
	if fn.Pkg != nil {
		return fn.Pkg.Pkg.Path()
	}
	if fn.Package() != nil {
		return fn.Package().Pkg.Path()
	}
	if fn.Parent() != nil {
		return funcPkgPath(fn.Parent())
	}
	// methods of instantiated / external types
	if recv := fn.Signature.Recv(); recv != nil {
		t := recv.Type()
		if p, ok := t.(*types.Pointer); ok {
			t = p.Elem()
		}
		if n, ok := t.(*types.Named); ok && n.Obj().Pkg() != nil {
			return n.Obj().Pkg().Path()
		}
	}
	return ""
}

func (c *Ctx) fnKey() string { return funcPkgPath(c.fn) + "::" + relFuncName(c.fn) }

func (c *Ctx) contractFor(fn *ssa.Function) *Contract {
	return c.eng.db.Contracts[funcPkgPath(fn)+"::"+relFuncName(fn)]
}

func (c *Ctx) execCall(st *State, fr *Frame, instr ssa.Instruction, call *ssa.CallCommon, k0 func(st *State, results []T)) {
	k := k0
	if bcs := c.callClauses(fr, call, "beforecall"); len(bcs) > 0 {
		env := map[string]T{}
		for kk, vv := range fr.env {
			env[kk] = vv
		}
		ai := 0
		if call.IsInvoke() {
			env["carg0"] = c.valueOf(st, fr, call.Value)
			ai = 1
		}
		for i, a := range call.Args {
			env[fmt.Sprintf("carg%d", i+ai)] = c.valueOf(st, fr, a)
		}
		se := &SpecEnv{c: c, st: st, vars: env, pkg: c.pkgOfFrame(fr), old: fr.entry, fr: fr, internal: true}
		for _, cl := range bcs {
			if cl.IfLocal != "" {
				if _, ok := st.vars[c.frameVarKey(fr, cl.IfLocal)]; !ok {
					continue
				}
			}
			if cl.IfNotLocal != "" {
				if _, ok := st.vars[c.frameVarKey(fr, cl.IfNotLocal)]; ok {
					continue
				}
			}
			for _, cj := range se.splitConjuncts(cl.E, 0) {
				g, unresolved := c.proveAtReturn(se, cj)
				if unresolved != "" {
					// "A ==> B" where B mentions a local that does not exist on this path: A must be false here
					imp, ok := cj.(*EBinary)
					if !ok || imp.Op != "==>" {
						panic(specErr{"assertion mentions unknown name " + unresolved + ": " + cj.String()})
					}
					g2, un2 := c.proveAtReturn(se, &EUnary{"!", imp.L})
					if un2 != "" {
						panic(specErr{"assertion mentions unknown name " + un2 + " in its antecedent: " + cj.String()})
					}
					g = g2
				}
				if !c.tagSelected(cl.Tags) {
					continue
				}
				c.oblige(st, fr, instr, "assert-before:"+cl.Callee, "at the call of "+cl.Callee+": "+cj.String(), g, cl, cl.Tags)
			}
		}
	}
	if lets := c.callClausesNoWith(fr, call, "afterlet"); len(lets) > 0 {
		kPrev := k
		pre := st.snap()
		k = func(st2 *State, results []T) {
			envA := map[string]T{}
			for kk, vv := range fr.env {
				envA[kk] = vv
			}
			for i, r := range results {
				envA[fmt.Sprintf("result%d", i)] = r
			}
			if len(results) > 0 {
				envA["result"] = results[0]
			}
			// the call's arguments are visible as cargN (as in before-clauses)
			ai := 0
			if call.IsInvoke() {
				envA["carg0"] = c.valueOf(st, fr, call.Value)
				ai = 1
			}
			for i, a := range call.Args {
				envA[fmt.Sprintf("carg%d", i+ai)] = c.valueOf(st, fr, a)
			}
			se := &SpecEnv{c: c, st: st2, vars: envA, pkg: c.pkgOfFrame(fr), old: pre, fr: fr, internal: true}
			for _, cl := range lets {
				v := se.eval(cl.E)
				st2.vars[c.frameVarKey(fr, cl.With)] = varBinding{val: v, ty: v.Ty}
			}
			kPrev(st2, results)
		}
	}
	if acs := c.afterClauses(fr, call); len(acs) > 0 {
		pre := st.snap()
		k = func(st2 *State, results []T) {
			envA := map[string]T{}
			for kk, vv := range fr.env {
				envA[kk] = vv
			}
			for i, r := range results {
				envA[fmt.Sprintf("result%d", i)] = r
			}
			if len(results) > 0 {
				envA["result"] = results[0]
			}
			se := &SpecEnv{c: c, st: st2, vars: envA, pkg: c.pkgOfFrame(fr), old: pre, fr: fr, internal: true}
			for _, cl := range acs {
				c.assumedClauses[c.fnKey()+": after "+cl.Callee+" "+cl.With+" assume "+normSpace(cl.Text)] = true
				st2.assume(se.assumeF(cl.E))
			}
			k0(st2, results)
		}
	}
	// builtins
	if bi, ok := call.Value.(*ssa.Builtin); ok {
		c.execBuiltin(st, fr, instr, bi, call, k)
		return
	}
	var args []T
	for _, a := range call.Args {
		args = append(args, c.valueOf(st, fr, a))
	}
	if call.IsInvoke() {
		recv := c.valueOf(st, fr, call.Value)
		c.safetyOblige(st, fr, instr, "nil-iface-call", "method call on nil interface ("+call.Method.Name()+")", "(not (= (itag "+recv.S+") 0))")
		// devirtualise when the dynamic type is syntactically known
		if recv.Dyn != nil {
			if m := c.eng.prog.LookupMethod(recv.Dyn, call.Method.Pkg(), call.Method.Name()); m != nil {
				var rv T
				if _, isPtr := recv.Dyn.Underlying().(*types.Pointer); isPtr {
					rv = T{S: "(ipay " + recv.S + ")", So: "Addr", Ty: recv.Dyn, Fresh: recv.Fresh}
				} else {
					rv = c.loadBox(st, "(ipay "+recv.S+")", recv.Dyn)
				}
				c.callFunction(st, fr, instr, m, append([]T{rv}, args...), k)
				return
			}
		}
		c.callInterface(st, fr, instr, call, recv, args, k)
		return
	}
	if callee := call.StaticCallee(); callee != nil {
		if mc, ok := call.Value.(*ssa.MakeClosure); ok {
			var bs []T
			for _, bv := range mc.Bindings {
				bs = append(bs, c.valueOf(st, fr, bv))
			}
			c.callClosure(st, fr, instr, callee, bs, args, k)
			return
		}
		c.callFunction(st, fr, instr, callee, args, k)
		return
	}
	// function value
	fv := c.valueOf(st, fr, call.Value)
	c.safetyOblige(st, fr, instr, "nil-func-call", "call of nil function value", "(not (= (fid "+fv.S+") 0))")
	if fv.Clo != nil {
		c.callClosure(st, fr, instr, fv.Clo.fn, fv.Clo.bindings, args, k)
		return
	}
	// functype contract attached to a function-typed struct field: "functype Type.field"
	if ld, ok := call.Value.(*ssa.UnOp); ok {
		if fa, ok := ld.X.(*ssa.FieldAddr); ok {
			if pt, ok := fa.X.Type().Underlying().(*types.Pointer); ok {
				if named, ok := pt.Elem().(*types.Named); ok {
					if stt, ok := named.Underlying().(*types.Struct); ok {
						key := types.TypeString(named, nil) + "." + stt.Field(fa.Field).Name()
						if ct := c.eng.db.FuncTypes[key]; ct != nil {
							sig := call.Value.Type().Underlying().(*types.Signature)
							c.applyContract(st, fr, instr, ct, key, sig, nil, args, &fv, k)
							return
						}
					}
				}
			}
		}
	}
	// functype contract by named type
	if named, ok := call.Value.Type().(*types.Named); ok {
		key := types.TypeString(named, nil)
		if ct := c.eng.db.FuncTypes[key]; ct != nil {
			sig := named.Underlying().(*types.Signature)
			c.applyContract(st, fr, instr, ct, key, sig, nil, args, &fv, k)
			return
		}
	}
	c.unknownCall(st, fr, instr, "funcvalue:"+types.TypeString(call.Value.Type(), nil), call.Signature(), k)
}

func (c *Ctx) callClosure(st *State, fr *Frame, instr ssa.Instruction, fn *ssa.Function, bindings []T, args []T, k func(st *State, results []T)) {
	if ct := c.contractFor(fn); ct != nil && !ct.Flags["inline"] {
		c.applyContract(st, fr, instr, ct, relFuncName(fn), fn.Signature, fn, args, nil, k)
		return
	}
	c.inline(st, fr, instr, fn, args, bindings, k)
}

func (c *Ctx) callFunction(st *State, fr *Frame, instr ssa.Instruction, callee *ssa.Function, args []T, k func(st *State, results []T)) {
	ct := c.contractFor(callee)
	if ct != nil && ct.Flags["synthetic"] && c.canInline(fr, callee, nil) {
		// a schematic (sweep) contract says less than the body of a small function: inline as before
		c.inline(st, fr, instr, callee, args, nil, k)
		return
	}
	if ct != nil && !ct.Flags["inline"] {
		c.applyContract(st, fr, instr, ct, funcPkgPath(callee)+"."+relFuncName(callee), callee.Signature, callee, args, nil, k)
		return
	}
	if c.canInline(fr, callee, ct) {
		c.inline(st, fr, instr, callee, args, nil, k)
		return
	}
	c.unknownCall(st, fr, instr, callee.String(), callee.Signature, k)
}

func (c *Ctx) canInline(fr *Frame, callee *ssa.Function, ct *Contract) bool {
	if callee.Blocks == nil {
		return false
	}
	if ct != nil && ct.Flags["inline"] {
		return fr.depth < 8
	}
	for _, f := range c.stack {
		if f == callee {
			return false
		}
	}
	if fr.depth >= c.eng.inlineDepth {
		return false
	}
	n := 0
	for _, b := range callee.Blocks {
		n += len(b.Instrs)
	}
	if n > c.eng.inlineSize {
		return false
	}
	// only inline functions of the module under verification or explicitly whitelisted packages
	pp := funcPkgPath(callee)
	if !strings.HasPrefix(pp, c.eng.modulePath) && !c.eng.inlinePkgs[pp] {
		return false
	}
	return true
}

func (c *Ctx) inline(st *State, fr *Frame, instr ssa.Instruction, callee *ssa.Function, args []T, bindings []T, k func(st *State, results []T)) {
	if callee.Blocks == nil {
		c.unknownCall(st, fr, instr, callee.String(), callee.Signature, k)
		return
	}
	c.inlined[callee.String()] = true
	nf := c.newFrame(callee, fr)
	nf.paramObjs = map[string]types.Object{}
	for _, p := range callee.Params {
		if p.Object() != nil {
			nf.paramObjs[p.Name()] = p.Object()
		}
	}
	for i, p := range callee.Params {
		if i < len(args) {
			a := args[i]
			a.Ty = p.Type()
			nf.regs[p] = a
			st.vars[c.frameVarKey(nf, p.Name())] = varBinding{val: a, ty: p.Type()}
		}
	}
	for i, fv := range callee.FreeVars {
		if i < len(bindings) {
			nf.regs[fv] = bindings[i]
			// free variables are addresses of captured variables (or, for never-reassigned ones, values)
			if pt, ok := fv.Type().Underlying().(*types.Pointer); ok {
				st.vars[c.frameVarKey(nf, fv.Name())] = varBinding{val: bindings[i], isAddr: true, ty: pt.Elem()}
			} else {
				st.vars[c.frameVarKey(nf, fv.Name())] = varBinding{val: bindings[i], ty: fv.Type()}
			}
		} else {
			c.abort("closure %s called without bindings", callee)
		}
	}
	c.stack = append(c.stack, callee)
	depth := len(c.stack)
	entrySnap := st.snap()
	nf.onReturn = func(st2 *State, results []T) {
		// an inlined function with its own (inline-flagged) contract: its postconditions are proved at
		// its return points (they may mention the closure's locals, free variables and ghost lets)
		if ict := c.contractFor(callee); ict != nil && ict.Flags["inline"] && c.rejectClause == nil {
			env := map[string]T{}
			bindResults(env, resultNames(ict, callee.Signature), results)
			se := &SpecEnv{c: c, st: st2, vars: env, pkg: ict.Pkg, old: entrySnap, fr: nf, internal: true}
			for _, cl := range ict.Clauses {
				if cl.Kind != "ensures" {
					continue
				}
				for _, cj := range se.splitConjuncts(cl.E, 0) {
					g, unresolved := c.proveAtReturn(se, cj)
					if unresolved != "" {
						panic(specErr{"postcondition of inlined " + relFuncName(callee) + " mentions unknown name " + unresolved + ": " + cj.String()})
					}
					if g == "true" || !c.tagSelected(cl.Tags) {
						continue
					}
					c.obls = append(c.obls, &Obligation{Func: c.fnKey(), Kind: "ensures@" + relFuncName(callee), Name: c.fnKey() + "#ensures@" + relFuncName(callee) + "#" + cl.Hash(), Desc: "postcondition of inlined " + relFuncName(callee) + ": " + cj.String(), Goal: g, Lines: st2.lines.collect(), Clause: cl, Tags: cl.Tags, Path: strings.Join(st2.pathDesc, ",")})
				}
			}
		}
		saved := c.stack
		c.stack = c.stack[:depth-1]
		k(st2, results)
		c.stack = saved
	}
	c.execBlock(nf, callee.Blocks[0], nil, st)
	c.stack = c.stack[:depth-1]
}

// unknownCall: a call with neither contract nor body in reach. Everything is
// havocked; the callee is assumed total (listed as an assumption).
func (c *Ctx) unknownCall(st *State, fr *Frame, instr ssa.Instruction, name string, sig *types.Signature, k func(st *State, results []T)) {
	c.unknownCalls[name]++
	// a function with a frame cannot call code whose footprint is unknown
	c.frameCheckCall(st, fr, instr, name, nil, true)
	c.havocAll(st)
	k(st, c.freshResults(st, sig))
}

func (c *Ctx) havocAll(st *State) {
	// remember the current versions: private (non-escaping) locals survive any call
	oldSyms := map[string]string{}
	var keys []string
	for key := range c.memSorts {
		if strings.HasPrefix(key, "M:") {
			keys = append(keys, key)
			oldSyms[key] = c.mem(st, key)
		}
	}
	sortStrings(keys)
	st.heapTop = c.declareHeapGrow(st)
	c.counter++
	st.epoch = fmt.Sprint(c.counter)
	st.epochTop = st.heapTop
	st.mem = map[string]string{}
	st.bases = map[string][]memBase{}
	for _, key := range keys {
		nw := c.mem(st, key)
		st.assume("(forall ((a Addr)) (! (=> (<= (root a) (- 100001)) (= (select " + nw + " a) (select " + oldSyms[key] + " a))) :pattern ((select " + nw + " a))))")
	}
}

func (c *Ctx) declareHeapGrow(st *State) string {
	n := c.declare(st, "ht", "Int")
	st.assume("(>= " + n + " " + st.heapTop + ")")
	return n
}

func (c *Ctx) freshResults(st *State, sig *types.Signature) []T {
	var rs []T
	for i := 0; i < sig.Results().Len(); i++ {
		rt := sig.Results().At(i).Type()
		so := c.reg.SortOf(rt)
		n := c.declare(st, "r", so)
		st.assume(c.wf(n, rt, st.heapTop))
		rs = append(rs, T{S: n, So: so, Ty: rt})
	}
	return rs
}

// ---------- interface calls ----------

func (c *Ctx) callInterface(st *State, fr *Frame, instr ssa.Instruction, call *ssa.CallCommon, recv T, args []T, k func(st *State, results []T)) {
	mname := call.Method.Name()
	keys := []string{types.TypeString(call.Value.Type(), nil) + "." + mname}
	// declaring interface (embedded interfaces)
	if sig, ok := call.Method.Type().(*types.Signature); ok && sig.Recv() != nil {
		keys = append(keys, types.TypeString(sig.Recv().Type(), nil)+"."+mname)
	}
	// also try every named interface in the spec DB that this static type embeds
	for _, key := range keys {
		if ct := c.eng.db.IfaceMeths[key]; ct != nil {
			sig := call.Method.Type().(*types.Signature)
			c.applyContract(st, fr, instr, ct, key, sig, nil, args, &recv, k)
			return
		}
	}
	c.unknownCall(st, fr, instr, "iface:"+keys[0], call.Method.Type().(*types.Signature), k)
}

// ---------- contracts at call sites ----------

// bindNames builds the environment of a contract instance.
func (c *Ctx) contractEnv(ct *Contract, sig *types.Signature, fn *ssa.Function, args []T, recv *T) map[string]T {
	env := map[string]T{}
	ai := 0
	if recv != nil {
		env["recv"] = *recv
		env["self"] = *recv
	} else if sig.Recv() != nil && len(args) > 0 {
		env["recv"] = args[0]
		if n := sig.Recv().Name(); n != "" && n != "_" {
			env[n] = args[0]
		}
		ai = 1
	}
	for i := 0; i < sig.Params().Len(); i++ {
		if ai+i >= len(args) {
			break
		}
		name := sig.Params().At(i).Name()
		if ct != nil && ct.Params != nil && i < len(ct.Params) {
			name = ct.Params[i]
		}
		if name != "" && name != "_" {
			a := args[ai+i]
			if a.Ty == nil {
				a.Ty = sig.Params().At(i).Type()
			}
			env[name] = a
		}
		env[fmt.Sprintf("arg%d", i)] = args[ai+i]
	}
	return env
}

func resultNames(ct *Contract, sig *types.Signature) []string {
	var names []string
	for i := 0; i < sig.Results().Len(); i++ {
		n := sig.Results().At(i).Name()
		if ct != nil && ct.Results != nil && i < len(ct.Results) {
			n = ct.Results[i]
		}
		names = append(names, n)
	}
	return names
}

func bindResults(env map[string]T, names []string, rs []T) {
	for i, r := range rs {
		if i < len(names) && names[i] != "" && names[i] != "_" {
			env[names[i]] = r
		}
		env[fmt.Sprintf("result%d", i)] = r
	}
	if len(rs) >= 1 {
		env["result"] = rs[0]
	}
}

func (c *Ctx) applyContract(st *State, fr *Frame, instr ssa.Instruction, ct *Contract, name string, sig *types.Signature, fn *ssa.Function, args []T, recv *T, k func(st *State, results []T)) {
	if ct.Trusted {
		c.trustedUsed[name] = true
	} else if fn != nil {
		c.usedContracts[funcPkgPath(fn)+"::"+relFuncName(fn)] = true
	}
	env := c.contractEnv(ct, sig, fn, args, recv)
	se := &SpecEnv{c: c, st: st, vars: env, pkg: ct.Pkg, old: nil, fr: nil}
	if c.rejectClause != nil {
		// rejects pass: the callee's preconditions may not hold here. If they do not, the callee
		// must itself reject (one of its own "rejects" conditions holds); then this path ends.
		var pres, rejs []string
		for _, cl := range ct.Clauses {
			if cl.Kind == "requires" {
				pres = append(pres, se.evalBool(cl.E))
			}
			if cl.Kind == "rejects" {
				rejs = append(rejs, se.evalBool(cl.E))
			}
		}
		if len(pres) > 0 {
			bad := st.clone()
			bad.assume("(not " + and(pres...) + ")")
			rc := c.rejectClause
			c.obls = append(c.obls, &Obligation{Func: c.fnKey(), Kind: "rejects", Name: c.fnKey() + "#rejects#" + rc.Hash(), Desc: "callee " + name + " is called outside its precondition and does not reject: " + normSpace(rc.Text), Goal: orFalse(or(rejs...)), Lines: bad.lines.collect(), Clause: rc, Tags: rc.Tags, Path: strings.Join(st.pathDesc, ",")})
		}
	}
	// preconditions
	for _, cl := range ct.Clauses {
		if cl.Kind != "requires" {
			continue
		}
		for _, cj := range se.splitConjuncts(cl.E, 0) {
			g := se.prove(cj)
			c.oblige(st, fr, instr, "pre:"+shortName(name), "precondition of "+name+": "+cj.String(), g, cl, nil)
		}
		st.assume(se.assumeF(cl.E))
	}
	pre := st.snap()
	hasAssigns := false
	for _, cl := range ct.Clauses {
		if cl.Kind == "assigns" {
			hasAssigns = true
		}
	}
	noalloc := ct.Flags["noalloc"] || ct.Flags["pure"]
	if !noalloc {
		st.heapTop = c.declareHeapGrow(st)
	}
	rs := c.freshResults(st, sig)
	bindResults(env, resultNames(ct, sig), rs)
	// declared dynamic types of interface results (proved when the callee is verified)
	for _, cl := range ct.Clauses {
		if cl.Kind == "returns" {
			se0 := &SpecEnv{c: c, st: st, vars: env, pkg: ct.Pkg}
			ty, _ := se0.resolveType(cl.Text)
			for i, n := range resultNames(ct, sig) {
				if n == cl.Callee && i < len(rs) {
					rs[i].Dyn = ty
					st.assume(fmt.Sprintf("(= (itag %s) %d)", rs[i].S, c.reg.TagOf(ty)))
				}
			}
		}
	}
	// frame of the callee (may mention results, e.g. the ghost state of a returned iterator)
	seA := &SpecEnv{c: c, st: st, vars: env, pkg: ct.Pkg, snapOnly: pre}
	locs, star := c.evalAssigns(seA, ct, "assigns", 0)
	if !hasAssigns {
		star = true
	}
	// objects directly referenced by the arguments are the callee's own (its "assigns foreign" was
	// proved, or is assumed, not to touch them unless they are listed explicitly)
	c.callArgRoots = nil
	{
		ai := 0
		if recv == nil && sig.Recv() != nil && len(args) > 0 {
			c.callArgRoots = append(c.callArgRoots, c.pointerRoots(args[0].S, sig.Recv().Type(), 0)...)
			ai = 1
		}
		for i := 0; i < sig.Params().Len() && ai+i < len(args); i++ {
			c.callArgRoots = append(c.callArgRoots, c.pointerRoots(args[ai+i].S, sig.Params().At(i).Type(), 0)...)
		}
	}
	c.havocLocs(st, pre, locs, star, pre.heapTop, noalloc)
	c.callArgRoots = nil
	se2 := &SpecEnv{c: c, st: st, vars: env, pkg: ct.Pkg, old: pre}
	for _, cl := range ct.Clauses {
		if cl.Kind != "ensures" {
			continue
		}
		// clauses that speak about the callee's local variables are internal to its own proof:
		// they cannot be evaluated (and are not assumed) at call sites
		func() {
			defer func() {
				if r := recover(); r != nil {
					if e2, ok := r.(specErr); ok && strings.HasPrefix(e2.msg, "unknown identifier ") {
						se2.pol, se2.nested, se2.facts = 0, false, nil
						return
					}
					panic(r)
				}
			}()
			st.assume(se2.assumeF(cl.E))
		}()
	}
	c.frameCheckCall(st, fr, instr, name, locs, star)
	k(st, rs)
}

func shortName(n string) string {
	if i := strings.LastIndex(n, "/"); i >= 0 {
		return n[i+1:]
	}
	return n
}

// ---------- assigns / frames ----------

// Loc is one assignable location set.
type Loc struct {
	Kind      string // cell cells region map ghost all
	Addr      string // cell: address; cells: slice term; region: any address in the object; map: map ref
	Ty        types.Type
	Key       string // ghost memory key
	Idx       string // ghost: owner term
	OwnerSort string
	Text      string
}

func (c *Ctx) evalAssigns(se *SpecEnv, ct *Contract, kind string, loop int) (locs []Loc, star bool) {
	for _, cl := range ct.Clauses {
		if cl.Kind != kind || (kind == "loopassigns" && cl.Loop != loop) {
			continue
		}
		for _, e := range cl.Locs {
			if id, ok := e.(*EIdent); ok && (id.Name == "everything" || id.Name == "all") {
				star = true
				continue
			}
			if id, ok := e.(*EIdent); ok && id.Name == "foreign" {
				locs = append(locs, Loc{Kind: "foreign", Text: "foreign"})
				continue
			}
			if u, ok := e.(*EUnary); ok && u.Op == "*" {
				if id, ok := u.X.(*EIdent); ok && id.Name == "" {
					star = true
					continue
				}
			}
			locs = append(locs, se.evalLoc(e)...)
		}
	}
	return
}

// inFrame: formula saying address a (a leaf cell of memory key) is covered by locs.
func (c *Ctx) inFrame(locs []Loc, key string, a string) string {
	var ds []string
	for _, l := range locs {
		switch l.Kind {
		case "cell":
			for _, lp := range c.leafPaths(l.Ty, nil) {
				if leafKey(c.reg.SortOf(lp.ty)) == key {
					ds = append(ds, "(= "+a+" "+applyPath(l.Addr, lp.path)+")")
				}
			}
			if arr, ok := l.Ty.Underlying().(*types.Array); ok {
				for _, lp := range c.leafPaths(arr.Elem(), nil) {
					if leafKey(c.reg.SortOf(lp.ty)) == key {
						ds = append(ds, inElemRange(a, l.Addr, "0", fmt.Sprint(arr.Len()), lp.path))
					}
				}
			}
		case "cells":
			for _, lp := range c.leafPaths(l.Ty, nil) {
				if leafKey(c.reg.SortOf(lp.ty)) == key {
					ds = append(ds, inElemRange(a, "(sarr "+l.Addr+")", "(soff "+l.Addr+")", "(+ (soff "+l.Addr+") (scap "+l.Addr+"))", lp.path))
				}
			}
		case "region":
			ds = append(ds, "(= (root "+a+") (root "+l.Addr+"))")
		}
	}
	return or(ds...)
}

// inElemRange: a == path(elem(arr, i)) for some lo <= i < hi
func inElemRange(a, arr, lo, hi string, path []int) string {
	// peel the field path from the outside in
	cur := a
	var conds []string
	for i := len(path) - 1; i >= 0; i-- {
		conds = append(conds, "((_ is fld) "+cur+")", fmt.Sprintf("(= (fidx %s) %d)", cur, path[i]))
		cur = "(fpar " + cur + ")"
	}
	conds = append(conds, "((_ is elem) "+cur+")", "(= (epar "+cur+") "+arr+")", "(<= "+lo+" (eidx "+cur+"))", "(< (eidx "+cur+") "+hi+")")
	return and(conds...)
}

func (c *Ctx) mapInFrame(locs []Loc, m string) string {
	var ds []string
	for _, l := range locs {
		if l.Kind == "map" {
			ds = append(ds, "(= "+m+" "+l.Addr+")")
		}
		if l.Kind == "region" {
			ds = append(ds, "(= (root "+m+") (root "+l.Addr+"))")
		}
	}
	return or(ds...)
}

// havocLocs havocs the given locations in st (relative to snapshot pre).
func (c *Ctx) havocLocs(st *State, pre *MemSnap, locs []Loc, star bool, preTop string, noalloc bool) {
	if star {
		top := st.heapTop
		c.havocAll(st)
		st.heapTop = top
		st.epochTop = top
		return
	}
	hasForeign := false
	for _, l := range locs {
		if l.Kind == "foreign" {
			hasForeign = true
		}
	}
	if hasForeign {
		c.havocForeign(st, locs)
	}
	// which keys are touched
	keys := map[string]bool{}
	for _, l := range locs {
		switch l.Kind {
		case "cell", "cells":
			t := l.Ty
			if arr, ok := t.Underlying().(*types.Array); ok {
				t = arr.Elem()
			}
			for _, lp := range c.leafPaths(t, nil) {
				keys[leafKey(c.reg.SortOf(lp.ty))] = true
			}
		case "region":
			for key := range c.memSorts {
				keys[key] = true
			}
			for _, ls := range leafSorts {
				keys[leafKey(ls)] = true
			}
		case "map":
			mt := l.Ty.Underlying().(*types.Map)
			dk, vk, _, _ := c.mapKeys(mt)
			keys[dk] = true
			keys[vk] = true
			keys["ML"] = true
		case "ghost":
			keys[l.Key] = true
		}
	}
	// Memory allocated by the callee (addresses above preTop) needs no new memory version: the
	// current memory symbols are unconstrained at never-allocated addresses, which is exactly
	// "arbitrary content"; only the listed locations get a new version.
	_ = noalloc
	for key := range keys {
		c.memSymSort(key)
	}
	var sorted []string
	for key := range keys {
		if hasForeign && !strings.HasPrefix(key, "G:") {
			continue // real memory was already re-versioned by havocForeign
		}
		sorted = append(sorted, key)
	}
	sortStrings(sorted)
	for _, key := range sorted {
		old, nw := c.havocMem(st, key)
		switch {
		case strings.HasPrefix(key, "M:"):
			inf := c.inFrame(locs, key, "a")
			allowed := inf
			st.assume("(forall ((a Addr)) (! (=> (not " + orFalse(allowed) + ") (= (select " + nw + " a) (select " + old + " a))) :pattern ((select " + nw + " a))))")
		case strings.HasPrefix(key, "MD:"), strings.HasPrefix(key, "MV:"), key == "ML":
			inf := c.mapInFrame(locs, "a")
			allowed := inf
			st.assume("(forall ((a Addr)) (! (=> (not " + orFalse(allowed) + ") (= (select " + nw + " a) (select " + old + " a))) :pattern ((select " + nw + " a))))")
		case strings.HasPrefix(key, "G:"):
			// ghost memory: only the listed owners change
			var ds []string
			for _, l := range locs {
				if l.Kind == "ghost" && l.Key == key {
					if l.Idx == "*" {
						ds = append(ds, "true")
					} else {
						ds = append(ds, "(= o "+l.Idx+")")
					}
				}
			}
			os := c.eng.ghostOwnerSort[key]
			st.assume("(forall ((o " + os + ")) (! (=> (not " + orFalse(or(ds...)) + ") (= (select " + nw + " o) (select " + old + " o))) :pattern ((select " + nw + " o))))")
		}
	}
}

func orFalse(s string) string {
	if s == "" {
		return "false"
	}
	return s
}

func sortStrings(s []string) {
	for i := 1; i < len(s); i++ {
		for j := i; j > 0 && s[j] < s[j-1]; j-- {
			s[j], s[j-1] = s[j-1], s[j]
		}
	}
}

// frame obligations for the function under verification
func (c *Ctx) topAssigns() (locs []Loc, star bool, has bool) {
	if c.topFrame == nil || c.contract == nil {
		return nil, true, false
	}
	for _, cl := range c.contract.Clauses {
		if cl.Kind == "assigns" {
			// a frame tagged for particular properties ("assigns[C20] ...") is an obligation of
			// those properties' checks only
			// (written "assigns[only:C20] ..."; plain tags are additive: they add the function to
			// that property's function set, the frame stays an obligation wherever the function is checked)
			only := false
			var ts []string
			for _, t := range cl.Tags {
				if strings.HasPrefix(t, "only:") {
					only = true
					ts = append(ts, t[5:])
				}
				if t == "assumed" {
					// "assigns[assumed] ...": the frame is used at call sites but NOT proved for the function
					// itself (reflect-heavy code); recorded as an assumption, while the function's other
					// clauses are verified
					c.assumedClauses["frame assumed, not proved: "+c.fnKey()+" assigns "+normSpace(cl.Text)] = true
					return nil, true, false
				}
			}
			if !only || c.tagSelected(ts) {
				has = true
			}
		}
	}
	if !has {
		return nil, true, false
	}
	se := &SpecEnv{c: c, st: nil, vars: c.topFrame.env, pkg: c.contract.Pkg, snapOnly: c.entrySnap, fr: c.topFrame}
	locs, star = c.evalAssigns(se, c.contract, "assigns", 0)
	return locs, star, true
}

func (c *Ctx) frameCheckStore(st *State, fr *Frame, instr ssa.Instruction, addr string, t types.Type) {
	locs, star, has := c.topAssigns()
	if !has || star {
		return
	}
	var gs []string
	lps := c.leafPaths(t, nil)
	if arr, ok := t.Underlying().(*types.Array); ok {
		_ = arr
		gs = append(gs, "(> (root "+addr+") "+c.h0+")")
	}
	for _, lp := range lps {
		a := applyPath(addr, lp.path)
		key := leafKey(c.reg.SortOf(lp.ty))
		gs = append(gs, or("(> (root "+a+") "+c.h0+")", c.inFrame(locs, key, a)))
	}
	c.oblige(st, fr, instr, "frame", "store is inside the function's assigns clause or to fresh memory", and(gs...), nil, nil)
}

func (c *Ctx) frameCheckMap(st *State, fr *Frame, instr ssa.Instruction, m string) {
	locs, star, has := c.topAssigns()
	if !has || star {
		return
	}
	c.oblige(st, fr, instr, "frame", "map update is inside the function's assigns clause or to a fresh map", or("(> (root "+m+") "+c.h0+")", c.mapInFrame(locs, m)), nil, nil)
}

func (c *Ctx) frameCheckCall(st *State, fr *Frame, instr ssa.Instruction, name string, callee []Loc, calleeStar bool) {
	locs, star, has := c.topAssigns()
	if !has || star {
		return
	}
	if calleeStar {
		c.oblige(st, fr, instr, "frame", "callee "+name+" has no assigns clause (may write anything)", "false", nil, nil)
		return
	}
	var gs []string
	for _, l := range callee {
		switch l.Kind {
		case "cell":
			for _, lp := range c.leafPaths(l.Ty, nil) {
				a := applyPath(l.Addr, lp.path)
				gs = append(gs, or("(> (root "+a+") "+c.h0+")", c.inFrame(locs, leafKey(c.reg.SortOf(lp.ty)), a)))
			}
		case "cells":
			for _, lp := range c.leafPaths(l.Ty, nil) {
				key := leafKey(c.reg.SortOf(lp.ty))
				a := applyPath("(elem (sarr "+l.Addr+") fi)", lp.path)
				gs = append(gs, "(forall ((fi Int)) (=> (and (<= (soff "+l.Addr+") fi) (< fi (+ (soff "+l.Addr+") (scap "+l.Addr+")))) "+or("(> (root (sarr "+l.Addr+")) "+c.h0+")", c.inFrame(locs, key, a))+"))")
			}
		case "region":
			var ds []string
			ds = append(ds, "(> (root "+l.Addr+") "+c.h0+")")
			for _, tl := range locs {
				if tl.Kind == "region" {
					ds = append(ds, "(= (root "+l.Addr+") (root "+tl.Addr+"))")
				}
			}
			gs = append(gs, or(ds...))
		case "map":
			gs = append(gs, or("(> (root "+l.Addr+") "+c.h0+")", c.mapInFrame(locs, l.Addr)))
		case "foreign":
			// foreign writes are by assumption outside the caller's own objects
		case "ghost":
			var ds []string
			switch l.OwnerSort {
			case "Iface":
				ds = append(ds, "(> (root (ipay "+l.Idx+")) "+c.h0+")")
				// the ghost state of the nil interface value is not observable
				ds = append(ds, "(= "+l.Idx+" nil_iface)")
			case "Addr":
				ds = append(ds, "(> (root "+l.Idx+") "+c.h0+")")
			}
			if l.Idx == "*" {
				// the callee may change this ghost field of any owner: the caller must allow the same
				ds = nil
			}
			for _, tl := range locs {
				if tl.Kind == "ghost" && tl.Key == l.Key {
					if tl.Idx == "*" || tl.Idx == l.Idx {
						ds = append(ds, "true")
					} else if l.Idx != "*" {
						ds = append(ds, "(= "+tl.Idx+" "+l.Idx+")")
					}
				}
			}
			gs = append(gs, orFalse(or(ds...)))
		}
	}
	g := and(gs...)
	c.oblige(st, fr, instr, "frame", "assigns of callee "+name+" are inside the caller's assigns clause or fresh", g, nil, nil)
}

// ---------- builtins ----------

func (c *Ctx) execBuiltin(st *State, fr *Frame, instr ssa.Instruction, bi *ssa.Builtin, call *ssa.CallCommon, k func(st *State, results []T)) {
	var args []T
	for _, a := range call.Args {
		args = append(args, c.valueOf(st, fr, a))
	}
	intT := types.Typ[types.Int]
	switch bi.Name() {
	case "len":
		a := args[0]
		switch call.Args[0].Type().Underlying().(type) {
		case *types.Slice:
			k(st, []T{{S: "(slen " + a.S + ")", So: "Int", Ty: intT}})
		case *types.Basic:
			k(st, []T{{S: "(slen_ " + a.S + ")", So: "Int", Ty: intT}})
		case *types.Map:
			n := c.define(st, "ml", "Int", "(ite (= "+a.S+" nil) 0 (select "+c.mem(st, "ML")+" "+a.S+"))")
			st.assume("(>= " + n + " 0)")
			k(st, []T{{S: n, So: "Int", Ty: intT}})
		case *types.Array:
			k(st, []T{{S: fmt.Sprint(call.Args[0].Type().Underlying().(*types.Array).Len()), So: "Int", Ty: intT}})
		case *types.Pointer:
			arr := call.Args[0].Type().Underlying().(*types.Pointer).Elem().Underlying().(*types.Array)
			k(st, []T{{S: fmt.Sprint(arr.Len()), So: "Int", Ty: intT}})
		default:
			c.abort("len of %s", call.Args[0].Type())
		}
	case "cap":
		a := args[0]
		switch call.Args[0].Type().Underlying().(type) {
		case *types.Slice:
			k(st, []T{{S: "(scap " + a.S + ")", So: "Int", Ty: intT}})
		default:
			c.abort("cap of %s", call.Args[0].Type())
		}
	case "append":
		c.execAppend(st, fr, instr, call, args, k)
	case "copy":
		c.execCopy(st, fr, instr, call, args, k)
	case "delete":
		m := args[0]
		mt := call.Args[0].Type().Underlying().(*types.Map)
		dk, _, _, _ := c.mapKeys(mt)
		if !m.Fresh {
			c.frameCheckMap(st, fr, instr, m.S)
		}
		was := c.define(st, "was", "Bool", "(and (not (= "+m.S+" nil)) "+c.mapDom(st, m.S, mt, args[1].S)+")")
		c.setMem(st, dk, "(store "+c.mem(st, dk)+" "+m.S+" (store (select "+c.mem(st, dk)+" "+m.S+") "+args[1].S+" false))")
		c.setMem(st, "ML", "(store "+c.mem(st, "ML")+" "+m.S+" (ite "+was+" (- (select "+c.mem(st, "ML")+" "+m.S+") 1) (select "+c.mem(st, "ML")+" "+m.S+")))")
		k(st, nil)
	case "print", "println":
		k(st, nil)
	case "min", "max":
		op := "<="
		if bi.Name() == "max" {
			op = ">="
		}
		cur := args[0].S
		for _, a := range args[1:] {
			cur = "(ite (" + op + " " + cur + " " + a.S + ") " + cur + " " + a.S + ")"
		}
		k(st, []T{{S: c.define(st, "mm", args[0].So, cur), So: args[0].So, Ty: args[0].Ty}})
	case "clear":
		c.abort("builtin clear unsupported")
	default:
		c.abort("builtin %s unsupported", bi.Name())
	}
}

// constLenOfSliceArg: when the appended slice is `new [k]T` sliced whole, k is known.
func constLenOf(v ssa.Value) (int64, bool) {
	if sl, ok := v.(*ssa.Slice); ok && sl.Low == nil && sl.High == nil {
		if al, ok := sl.X.(*ssa.Alloc); ok {
			if arr, ok := al.Type().Underlying().(*types.Pointer).Elem().Underlying().(*types.Array); ok {
				return arr.Len(), true
			}
		}
	}
	if k, ok := v.(*ssa.Const); ok && k.Value == nil {
		return 0, true
	}
	return 0, false
}

func (c *Ctx) execAppend(st *State, fr *Frame, instr ssa.Instruction, call *ssa.CallCommon, args []T, k func(st *State, results []T)) {
	s := args[0]
	t := args[1]
	st0 := call.Args[0].Type()
	elemT := st0.Underlying().(*types.Slice).Elem()
	var n string
	srcIsString := false
	if b, ok := call.Args[1].Type().Underlying().(*types.Basic); ok && b.Info()&types.IsString != 0 {
		srcIsString = true
		n = "(slen_ " + t.S + ")"
	} else {
		n = "(slen " + t.S + ")"
	}
	kn, known := constLenOf(call.Args[1])
	if known && kn == 0 {
		k(st, []T{s})
		return
	}
	newLen := c.define(st, "nl", "Int", "(+ (slen "+s.S+") "+n+")")
	fits := "(<= " + newLen + " (scap " + s.S + "))"
	lps := c.leafPaths(elemT, nil)
	// --- case 1: in place
	st1 := st.clone()
	st1.assume(fits)
	if !c.prune || c.feasible(st1) {
		if !s.Fresh {
			// frame: cells written
			locs, star, has := c.topAssigns()
			if has && !star {
				var gs []string
				for _, lp := range lps {
					key := leafKey(c.reg.SortOf(lp.ty))
					a := applyPath("(elem (sarr "+s.S+") fi)", lp.path)
					gs = append(gs, "(forall ((fi Int)) (=> (and (<= (+ (soff "+s.S+") (slen "+s.S+")) fi) (< fi (+ (soff "+s.S+") "+newLen+"))) "+or("(> (root (sarr "+s.S+")) "+c.h0+")", c.inFrame(locs, key, a))+"))")
				}
				c.oblige(st1, fr, instr, "frame", "in-place append writes only cells in the assigns clause or fresh memory", and(gs...), nil, nil)
			}
		}
		if known && kn <= 4 && !srcIsString {
			for j := int64(0); j < kn; j++ {
				src := fmt.Sprintf("(elem (sarr %s) (ix (soff %s) %d))", t.S, t.S, j)
				dst := fmt.Sprintf("(elem (sarr %s) (ix (soff %s) (+ (slen %s) %d)))", s.S, s.S, s.S, j)
				v := c.loadWith(func(key string) string { return c.mem(st1, key) }, src, elemT)
				vn := c.define(st1, "ap", c.reg.SortOf(elemT), v)
				c.store(st1, dst, elemT, vn)
			}
		} else {
			c.bulkCopy(st1, "(sarr "+s.S+")", "(+ (soff "+s.S+") (slen "+s.S+"))", t, n, elemT, srcIsString, false)
		}
		r := T{S: c.define(st1, "sl", "Slice", "(mk_slice (sarr "+s.S+") (soff "+s.S+") "+newLen+" (scap "+s.S+"))"), So: "Slice", Ty: st0, Fresh: s.Fresh}
		k(st1, []T{r})
	}
	if !c.countPath() {
		return
	}
	// --- case 2: reallocation
	st2 := st
	st2.assume(not(fits))
	if c.prune && !c.feasible(st2) {
		return
	}
	arr := c.bumpHeap(st2)
	st2.assume(fmt.Sprintf("(= (atype %s) %d)", arr, c.reg.ArrID(elemT)))
	ncap := c.declare(st2, "ncap", "Int")
	st2.assume("(>= " + ncap + " " + newLen + ")")
	// copy old content
	c.bulkCopy(st2, arr, "0", s, "(slen "+s.S+")", elemT, false, true)
	if known && kn <= 4 && !srcIsString {
		for j := int64(0); j < kn; j++ {
			src := fmt.Sprintf("(elem (sarr %s) (ix (soff %s) %d))", t.S, t.S, j)
			dst := fmt.Sprintf("(elem %s (ix 0 (+ (slen %s) %d)))", arr, s.S, j)
			v := c.loadWith(func(key string) string { return c.mem(st2, key) }, src, elemT)
			vn := c.define(st2, "ap", c.reg.SortOf(elemT), v)
			c.store(st2, dst, elemT, vn)
		}
	} else {
		c.bulkCopy(st2, arr, "(slen "+s.S+")", t, n, elemT, srcIsString, false)
	}
	r := T{S: c.define(st2, "sl", "Slice", "(mk_slice "+arr+" 0 "+newLen+" "+ncap+")"), So: "Slice", Ty: st0, Fresh: true}
	k(st2, []T{r})
}

// bulkCopy: dstArr[dstOff+i] = src[i] for 0 <= i < n, for all leaf memories of elemT.
// When freshDst is set the destination array was just allocated (its other cells are arbitrary).
func (c *Ctx) bulkCopy(st *State, dstArr, dstOff string, src T, n string, elemT types.Type, srcIsString, freshDst bool) {
	lps := c.leafPaths(elemT, nil)
	byKey := map[string][]leafPath{}
	var keys []string
	for _, lp := range lps {
		key := leafKey(c.reg.SortOf(lp.ty))
		if _, ok := byKey[key]; !ok {
			keys = append(keys, key)
		}
		byKey[key] = append(byKey[key], lp)
	}
	for _, key := range keys {
		old := c.mem(st, key)
		nw := c.freshName("mb_" + sanitize(key))
		st.emit("(declare-const " + nw + " " + c.memSymSort(key) + ")")
		st.mem[key] = nw
		var inRange []string
		for _, lp := range byKey[key] {
			inRange = append(inRange, inElemRange("a", dstArr, dstOff, "(+ "+dstOff+" "+n+")", lp.path))
			// quantify over the destination index k so that the trigger (select M' (elem dst k)) contains
			// no arithmetic (E-matching cannot solve k = off + i for i)
			var srcCell string
			if srcIsString {
				srcCell = "(sat_ " + src.S + " (- k " + dstOff + "))"
			} else {
				srcCell = "(select " + old + " " + applyPath("(elem (sarr "+src.S+") (ix (soff "+src.S+") (- k "+dstOff+")))", lp.path) + ")"
			}
			dstCell := applyPath("(elem "+dstArr+" k)", lp.path)
			st.assume("(forall ((k Int)) (! (=> (and (<= " + dstOff + " k) (< k (+ " + dstOff + " " + n + "))) (= (select " + nw + " " + dstCell + ") " + srcCell + ")) :pattern ((select " + nw + " " + dstCell + "))))")
		}
		st.assume("(forall ((a Addr)) (! (=> (not " + or(inRange...) + ") (= (select " + nw + " a) (select " + old + " a))) :pattern ((select " + nw + " a))))")
	}
}

func (c *Ctx) execCopy(st *State, fr *Frame, instr ssa.Instruction, call *ssa.CallCommon, args []T, k func(st *State, results []T)) {
	dst := args[0]
	src := args[1]
	elemT := call.Args[0].Type().Underlying().(*types.Slice).Elem()
	srcIsString := false
	var sl string
	if b, ok := call.Args[1].Type().Underlying().(*types.Basic); ok && b.Info()&types.IsString != 0 {
		srcIsString = true
		sl = "(slen_ " + src.S + ")"
	} else {
		sl = "(slen " + src.S + ")"
	}
	n := c.define(st, "cn", "Int", "(ite (<= (slen "+dst.S+") "+sl+") (slen "+dst.S+") "+sl+")")
	if !dst.Fresh {
		locs, star, has := c.topAssigns()
		if has && !star {
			var gs []string
			for _, lp := range c.leafPaths(elemT, nil) {
				key := leafKey(c.reg.SortOf(lp.ty))
				a := applyPath("(elem (sarr "+dst.S+") fi)", lp.path)
				gs = append(gs, "(forall ((fi Int)) (=> (and (<= (soff "+dst.S+") fi) (< fi (+ (soff "+dst.S+") "+n+"))) "+or("(> (root (sarr "+dst.S+")) "+c.h0+")", c.inFrame(locs, key, a))+"))")
			}
			c.oblige(st, fr, instr, "frame", "copy writes only cells in the assigns clause or fresh memory", and(gs...), nil, nil)
		}
	}
	c.bulkCopy(st, "(sarr "+dst.S+")", "(soff "+dst.S+")", src, n, elemT, srcIsString, false)
	k(st, []T{{S: n, So: "Int", Ty: types.Typ[types.Int]}})
}

// ---------- loops ----------

func (c *Ctx) loopKey(fr *Frame, b *ssa.BasicBlock) string {
	return fmt.Sprintf("%d:%d", fr.id, b.Index)
}

func (c *Ctx) loopClauses(fr *Frame, li *loopInfo, kind string) []*Clause {
	ct := fr.contract
	if ct == nil {
		ct = c.contractFor(fr.fn)
	}
	if ct == nil {
		return nil
	}
	var out []*Clause
	for _, cl := range ct.Clauses {
		if cl.Kind == kind && cl.Loop == li.ordinal {
			out = append(out, cl)
		}
	}
	return out
}

// loopHeader handles arrival at a loop header; returns true when the body should be executed.
func (c *Ctx) loopHeader(fr *Frame, li *loopInfo, b, pred *ssa.BasicBlock, st *State) bool {
	if c.rejectClause != nil {
		// a misuse must be rejected before any loop is entered (loop invariants are stated for legal
		// states and must not be assumed here)
		cl := c.rejectClause
		c.obls = append(c.obls, &Obligation{Func: c.fnKey(), Kind: "rejects", Name: c.fnKey() + "#rejects#" + cl.Hash(), Desc: "a loop is reached without rejecting: " + normSpace(cl.Text), Goal: "false", Lines: st.lines.collect(), Clause: cl, Tags: cl.Tags, Path: strings.Join(st.pathDesc, ",")})
		return false
	}
	key := c.loopKey(fr, b)
	ct := fr.contract
	if ct == nil {
		ct = c.contractFor(fr.fn)
	}
	// collect phis + incoming
	var phis []*ssa.Phi
	var vals []T
	for _, in := range b.Instrs {
		phi, ok := in.(*ssa.Phi)
		if !ok {
			break
		}
		phis = append(phis, phi)
		vals = append(vals, c.phiIncoming(st, fr, phi, b, pred))
	}
	assignPhis := func(vs []T) {
		for i, phi := range phis {
			c.bind(st, fr, phi, vs[i])
			if phi.Comment != "" {
				st.vars[c.frameVarKey(fr, phi.Comment)] = varBinding{val: vs[i], ty: phi.Type()}
			}
		}
	}
	// unrolling
	if ucs := c.loopClauses(fr, li, "loopunroll"); len(ucs) > 0 {
		n, _ := strconv.Atoi(strings.TrimSpace(ucs[0].Text))
		st.active[key]++
		if st.active[key] > n+1 {
			c.oblige(st, fr, b.Instrs[0], "unwind", fmt.Sprintf("loop %d exits within %d iterations", li.ordinal, n), "false", ucs[0], nil)
			return false
		}
		assignPhis(vals)
		return true
	}
	invs := c.loopClauses(fr, li, "loopinv")
	firstInstr := b.Instrs[0]
	if st.active[key] == 0 {
		// first arrival: establish invariant
		assignPhis(vals)
		se := &SpecEnv{c: c, st: st, vars: fr.env, pkg: c.pkgOfFrame(fr), old: fr.entry, fr: fr, internal: true}
		for _, cl := range invs {
			for _, cj := range se.splitConjuncts(cl.E, 0) {
				g := se.prove(cj)
				if !c.tagSelected(cl.Tags) {
					continue
				}
				c.oblige(st, fr, firstInstr, "inv-entry", fmt.Sprintf("loop %d invariant holds on entry: %s", li.ordinal, cj.String()), g, cl, cl.Tags)
			}
		}
		// havoc
		pre := st.snap()
		if li.writes {
			hasLA := len(c.loopClauses(fr, li, "loopassigns")) > 0
			if hasLA && ct != nil {
				locs, star := c.evalAssigns(se, ct, "loopassigns", li.ordinal)
				st.heapTop = c.declareHeapGrow(st)
				c.havocLocs(st, pre, locs, star, pre.heapTop, false)
			} else {
				c.havocAll(st)
			}
		}
		var hv []T
		for _, phi := range phis {
			so := c.reg.SortOf(phi.Type())
			n := c.declare(st, "phi_"+sanitize(phi.Comment), so)
			st.assume(c.wf(n, phi.Type(), st.heapTop))
			hv = append(hv, T{S: n, So: so, Ty: phi.Type()})
		}
		assignPhis(hv)
		// Allocs with names defined before the loop keep their binding (addresses do not change)
		se2 := &SpecEnv{c: c, st: st, vars: fr.env, pkg: c.pkgOfFrame(fr), old: fr.entry, fr: fr, internal: true}
		for _, cl := range invs {
			st.assume(se2.assumeF(cl.E))
		}
		st.active[key] = 1
		st.iterTop = st.heapTop // everything allocated from here on is allocated in this iteration
		return true
	}
	// back edge: invariant preserved. The phi registers are re-bound only for the evaluation of the
	// invariant and restored afterwards: sibling paths forked after the header still read them.
	savedRegs := make([]T, len(phis))
	for i, phi := range phis {
		savedRegs[i] = fr.regs[phi]
	}
	defer func() {
		for i, phi := range phis {
			fr.regs[phi] = savedRegs[i]
		}
	}()
	assignPhis(vals)
	se := &SpecEnv{c: c, st: st, vars: fr.env, pkg: c.pkgOfFrame(fr), old: fr.entry, fr: fr, internal: true}
	for _, cl := range invs {
		for _, cj := range se.splitConjuncts(cl.E, 0) {
			g := se.prove(cj)
			if !c.tagSelected(cl.Tags) {
				continue
			}
			c.oblige(st, fr, firstInstr, "inv-preserved", fmt.Sprintf("loop %d invariant preserved: %s", li.ordinal, cj.String()), g, cl, cl.Tags)
		}
	}
	return false
}

func (c *Ctx) pkgOfFrame(fr *Frame) string {
	if fr.contract != nil {
		return fr.contract.Pkg
	}
	return funcPkgPath(fr.fn)
}

func (c *Ctx) tagSelected(tags []string) bool {
	if len(tags) == 0 || c.property == "" {
		return true
	}
	for _, t := range tags {
		if t == c.property {
			return true
		}
	}
	return false
}

// afterClauses: "after <callee> [with <closure>] assume <expr>" clauses of the frame's contract that match this call.
func (c *Ctx) afterClauses(fr *Frame, call *ssa.CallCommon) []*Clause {
	return c.callClauses(fr, call, "aftercall")
}

// callClausesNoWith: like callClauses for clause kinds whose With field is not a closure name.
func (c *Ctx) callClausesNoWith(fr *Frame, call *ssa.CallCommon, kind string) []*Clause {
	c.ignoreWith = true
	defer func() { c.ignoreWith = false }()
	return c.callClauses(fr, call, kind)
}

func (c *Ctx) callClauses(fr *Frame, call *ssa.CallCommon, kind string) []*Clause {
	ct := fr.contract
	if ct == nil {
		ct = c.contractFor(fr.fn)
	}
	if ct == nil && fr.fn.Parent() != nil {
		// an inlined closure without its own contract: the enclosing function's clauses apply
		ct = c.contractFor(fr.fn.Parent())
	}
	if ct == nil {
		return nil
	}
	var out []*Clause
	name := callSiteName(call)
	for _, cl := range ct.Clauses {
		if cl.Kind != kind {
			continue
		}
		if !strings.HasSuffix(name, cl.Callee) {
			continue
		}
		if cl.Site >= 0 && siteOrdinal(fr.fn, call, cl.Callee) != cl.Site {
			continue
		}
		if cl.With != "" && !c.ignoreWith {
			found := false
			for _, a := range call.Args {
				if mc, ok := a.(*ssa.MakeClosure); ok && relFuncName(mc.Fn.(*ssa.Function)) == cl.With {
					found = true
				}
			}
			if !found {
				continue
			}
		}
		out = append(out, cl)
	}
	return out
}

// callSiteName: the name under which before/after clauses refer to the callee of a call.
func callSiteName(call *ssa.CallCommon) string {
	if call.IsInvoke() {
		return call.Method.Name()
	} else if sc := call.StaticCallee(); sc != nil {
		return funcPkgPath(sc) + "." + relFuncName(sc)
	} else if p, ok := call.Value.(*ssa.Parameter); ok {
		return p.Name()
	} else if ld, ok := call.Value.(*ssa.UnOp); ok {
		if fa, ok := ld.X.(*ssa.FieldAddr); ok {
			if pt, ok := fa.X.Type().Underlying().(*types.Pointer); ok {
				if stt, ok := pt.Elem().Underlying().(*types.Struct); ok {
					return stt.Field(fa.Field).Name()
				}
			}
		}
	}
	// a function value held in a local variable: the variable's source name (from the debug info)
	if call.Value != nil && call.Value.Parent() != nil {
		for _, b := range call.Value.Parent().Blocks {
			for _, in := range b.Instrs {
				if dr, ok := in.(*ssa.DebugRef); ok && !dr.IsAddr && dr.X == call.Value {
					if id, ok := dr.Expr.(*ast.Ident); ok {
						return id.Name
					}
				}
			}
		}
	}
	return ""
}

// siteOrdinal: position (in source order, from 0) of this call among the calls of fn whose callee
// name ends in suffix.
func siteOrdinal(fn *ssa.Function, call *ssa.CallCommon, suffix string) int {
	n := 0
	for _, b := range fn.Blocks {
		for _, in := range b.Instrs {
			ci, ok := in.(ssa.CallInstruction)
			if !ok || ci.Common() == call {
				continue
			}
			if strings.HasSuffix(callSiteName(ci.Common()), suffix) && ci.Pos() < call.Pos() {
				n++
			}
		}
	}
	return n
}

// havocForeign: the callee may write any memory except objects that belong to the function under
// verification: those referenced directly by its pointer-shaped parameters (their roots) and its
// private locals. (Separation assumption about foreign code such as node assemblers: they keep no
// pointer into those objects. Listed in the evidence file.)
func (c *Ctx) havocForeign(st *State, locs []Loc) {
	c.foreignUsed = true
	var prot []string
	if c.topFrame != nil {
		for _, p := range c.fn.Params {
			t := c.topFrame.regs[p]
			prot = append(prot, c.pointerRoots(t.S, p.Type(), 0)...)
		}
		for _, fv := range c.fn.FreeVars {
			t := c.topFrame.regs[fv]
			prot = append(prot, c.pointerRoots(t.S, fv.Type(), 0)...)
		}
	}
	prot = append(prot, c.callArgRoots...)
	// Objects allocated by the function under verification are NOT protected: once their address has
	// been handed to other code (stored, passed, boxed) foreign code may legitimately write them (e.g.
	// a parse context object updated through a callback); those whose address never escapes live in
	// private negative-id objects, which are always preserved.
	st.heapTop = c.declareHeapGrow(st)
	var keys []string
	for key := range c.memSorts {
		keys = append(keys, key)
	}
	sortStrings(keys)
	for _, key := range keys {
		if strings.HasPrefix(key, "G:") {
			continue // ghost state is only changed through explicit assigns clauses
		}
		old, nw := c.havocMem(st, key)
		var ds []string
		for _, r := range prot {
			ds = append(ds, "(= (root a) "+r+")")
		}
		ds = append(ds, "(<= (root a) (- 100001))") // private (non-escaping) locals
		var inf string
		if strings.HasPrefix(key, "M:") {
			inf = c.inFrame(locs, key, "a")
		} else {
			inf = c.mapInFrame(locs, "a")
		}
		st.assume("(forall ((a Addr)) (! (=> (and " + or(ds...) + " (not " + orFalse(inf) + ")) (= (select " + nw + " a) (select " + old + " a))) :pattern ((select " + nw + " a))))")
	}
}

// pointerRoots: roots of the objects directly referenced by a value (through pointers and slices,
// also inside by-value structs).
func (c *Ctx) pointerRoots(v string, t types.Type, depth int) []string {
	if depth > 3 {
		return nil
	}
	switch u := t.Underlying().(type) {
	case *types.Pointer, *types.Map:
		return []string{"(root " + v + ")"}
	case *types.Slice:
		return []string{"(root (sarr " + v + "))"}
	case *types.Struct:
		si := c.reg.structInfoOf(t)
		var out []string
		for i := 0; i < u.NumFields(); i++ {
			out = append(out, c.pointerRoots(fmt.Sprintf("(%s_f%d %s)", si.name, i, v), u.Field(i).Type(), depth+1)...)
		}
		return out
	}
	return nil
}
