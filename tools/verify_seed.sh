#!/bin/sh
# usage: tools/verify_seed.sh <worktree> : confirm a seeded change (patch.diff applied in the worktree):
# builds, the existing test suite passes (apart from the two packages that fail on the unchanged tree for
# want of the .ipld/specs submodule), the demo exits 1 with the change and 0 without it.
export GOFLAGS=-mod=mod GOPROXY=off
wt=$1; cd $wt || exit 2
race=""; grep -q "go run -race" TASK_REPLY.txt 2>/dev/null && race="-race"
[ -n "$2" ] && race="$2"
go build ./... || { echo "BUILD FAILS"; exit 1; }
fails=$(go test -vet=off -count=1 ./... 2>&1 | grep "^FAIL\|^---\|panic:" | grep -v "schema/dmt\|schema/dsl\|TestRoundtripSchemaSchema\|TestParseSchemaSchema\|TestParse\b\|^FAIL$" )
if [ -n "$fails" ]; then echo "TESTS FAIL WITH CHANGE:"; echo "$fails" | head; else echo "tests: pass with change"; fi
go run $race ./zz_demo >/tmp/vs_with.$$ 2>&1; w=$?
git apply -R patch.diff || { echo "cannot reverse patch"; exit 1; }
go run $race ./zz_demo >/tmp/vs_without.$$ 2>&1; wo=$?
git apply patch.diff
echo "demo with change: exit $w; without: exit $wo"
tail -3 /tmp/vs_with.$$; rm -f /tmp/vs_with.$$ /tmp/vs_without.$$
[ $w -ne 0 ] && [ $wo -eq 0 ] && [ -z "$fails" ] && echo "SEED CONFIRMED"
