package main

import (
	"fmt"
	"go/types"
	"os"
	"path/filepath"
	"sort"
	"strings"

	"golang.org/x/tools/go/packages"
	"golang.org/x/tools/go/ssa"
	"golang.org/x/tools/go/ssa/ssautil"
)

type Engine struct {
	prog            *ssa.Program
	pkgs            map[string]*packages.Package
	ssaPkgs         map[string]*ssa.Package
	funcs           map[string]*ssa.Function // pkgpath::relname
	db              *SpecDB
	ghostByType     map[string]*GhostField
	ghostOwnerSort  map[string]string
	ghostOwnerType  map[string]types.Type
	modulePath      string
	repoDir         string
	inlineDepth     int
	inlineSize      int
	inlinePkgs      map[string]bool
	makeLimit       string
	solver          *SolverPool
	expectUndecided map[string]bool // obligations listed in known_findings.json / unproved.json
	shortBudget     float64         // quick tier: solver budget for those (0 = the normal one)
	verbose         bool
}

func LoadEngine(repoDir string, patterns []string) (*Engine, error) {
	cfg := &packages.Config{Mode: packages.LoadAllSyntax | packages.NeedModule, Dir: repoDir, BuildFlags: []string{"-tags=verif"}, Env: append(os.Environ(), "GOFLAGS=-mod=mod", "GOPROXY=off")}
	pkgs, err := packages.Load(cfg, patterns...)
	if err != nil {
		return nil, err
	}
	nerr := 0
	packages.Visit(pkgs, nil, func(p *packages.Package) {
		for _, e := range p.Errors {
			fmt.Fprintln(os.Stderr, "load error:", e)
			nerr++
		}
	})
	if nerr > 0 {
		return nil, fmt.Errorf("%d package load errors", nerr)
	}
	prog, _ := ssautil.AllPackages(pkgs, ssa.InstantiateGenerics|ssa.GlobalDebug)
	prog.Build()
	e := &Engine{prog: prog, pkgs: map[string]*packages.Package{}, ssaPkgs: map[string]*ssa.Package{}, funcs: map[string]*ssa.Function{},
		db: NewSpecDB(), ghostByType: map[string]*GhostField{}, ghostOwnerSort: map[string]string{}, ghostOwnerType: map[string]types.Type{}, repoDir: repoDir,
		inlineDepth: 3, inlineSize: 60, inlinePkgs: map[string]bool{"github.com/ipfs/go-cid": true, "github.com/polydawn/refmt/tok": true}, makeLimit: "9223372036854775807"}
	packages.Visit(pkgs, nil, func(p *packages.Package) {
		e.pkgs[p.PkgPath] = p
		if p.Module != nil && p.Module.Main {
			e.modulePath = p.Module.Path
		}
	})
	for _, sp := range prog.AllPackages() {
		e.ssaPkgs[sp.Pkg.Path()] = sp
	}
	for fn := range ssautil.AllFunctions(prog) {
		pp := funcPkgPath(fn)
		if pp == "" {
			continue
		}
		e.funcs[pp+"::"+relFuncName(fn)] = fn
	}
	return e, nil
}

func (e *Engine) typesPkg(path string) *types.Package {
	if p, ok := e.pkgs[path]; ok {
		return p.Types
	}
	return nil
}

// findPkgByName resolves an import name as seen from package `from`.
func (e *Engine) findPkgByName(from, name string) *types.Package {
	if p, ok := e.pkgs[from]; ok {
		for _, imp := range p.Imports {
			if imp.Types != nil && imp.Types.Name() == name {
				return imp.Types
			}
		}
		// file-level renamed imports
		for _, f := range p.Syntax {
			for _, is := range f.Imports {
				if is.Name != nil && is.Name.Name == name {
					path := strings.Trim(is.Path.Value, "\"")
					if ip, ok := e.pkgs[path]; ok {
						return ip.Types
					}
				}
			}
		}
	}
	// fall back: any loaded package with that name (unique)
	var found *types.Package
	for _, p := range e.pkgs {
		if p.Types != nil && p.Types.Name() == name {
			if found != nil && found != p.Types {
				// ambiguous: prefer module packages
				if strings.HasPrefix(p.PkgPath, e.modulePath) && !strings.HasPrefix(found.Path(), e.modulePath) {
					found = p.Types
				}
				continue
			}
			found = p.Types
		}
	}
	return found
}

// LoadSpecs reads every verif_contracts.go of the module packages and the external spec files.
func (e *Engine) LoadSpecs(extDir string) error {
	var paths []string
	for pp, p := range e.pkgs {
		if !strings.HasPrefix(pp, e.modulePath) {
			continue
		}
		dir := ""
		if len(p.GoFiles) > 0 {
			dir = filepath.Dir(p.GoFiles[0])
		}
		if dir == "" {
			continue
		}
		f := filepath.Join(dir, "verif_contracts.go")
		if _, err := os.Stat(f); err == nil {
			paths = append(paths, pp+"\x00"+f)
		}
	}
	sort.Strings(paths)
	for _, pf := range paths {
		parts := strings.SplitN(pf, "\x00", 2)
		if err := e.db.ParseSpecFile(parts[1], parts[0], false); err != nil {
			return err
		}
	}
	if extDir != "" {
		files, _ := filepath.Glob(filepath.Join(extDir, "*.spec"))
		// *.vspec: contracts for functions of dependencies (source in the module cache) that are
		// VERIFIED against that source like the repository's own functions, not assumed
		vfiles, _ := filepath.Glob(filepath.Join(extDir, "*.vspec"))
		sort.Strings(vfiles)
		for _, f := range vfiles {
			if err := e.db.ParseSpecFile(f, "", false); err != nil {
				return err
			}
		}
		sort.Strings(files)
		for _, f := range files {
			if err := e.db.ParseSpecFile(f, "", true); err != nil {
				return err
			}
		}
	}
	e.expandSweeps()
	// resolve ghost owner types to canonical type strings
	for _, g := range e.db.Ghosts {
		owner := g.Type
		if i := strings.LastIndex(owner, "."); i >= 0 {
			if p := e.findPkgByName(g.Pkg, owner[:i]); p != nil {
				owner = p.Path() + "." + owner[i+1:]
			}
		} else if strings.HasPrefix(owner, "*") {
			owner = "*" + g.Pkg + "." + owner[1:]
		} else if !isBuiltinSortName(owner) && !e.db.Sorts[owner] {
			owner = g.Pkg + "." + owner
		}
		e.ghostByType[owner+"."+g.Name] = g
		e.db.Ghosts[owner+"."+g.Name] = g
		// resolve the owner type object
		if i := strings.LastIndex(owner, "."); i >= 0 {
			if p, ok := e.pkgs[owner[:i]]; ok && p.Types != nil {
				if o := p.Types.Scope().Lookup(owner[i+1:]); o != nil {
					e.ghostOwnerType[owner+"."+g.Name] = o.Type()
				}
			}
		}
	}
	// canonicalise interface-method and functype keys: "pkgname.Type.Method" -> "pkgpath.Type.Method"
	canon := func(m map[string]*Contract, isMethod bool) {
		for k, ct := range m {
			name := k
			if j := strings.Index(name, "|"); j >= 0 {
				name = name[j+1:]
			}
			meth := ""
			if isMethod {
				i := strings.LastIndex(name, ".")
				meth = name[i:]
				name = name[:i]
			}
			full := name
			if i := strings.LastIndex(name, "."); i >= 0 && !isMethod && e.typesPkg(ct.Pkg) != nil && e.typesPkg(ct.Pkg).Scope().Lookup(name[:i]) != nil {
				// "Type.field" of the contract's own package
				full = ct.Pkg + "." + name
			} else if i := strings.LastIndex(name, "."); i >= 0 {
				if p := e.findPkgByName(ct.Pkg, name[:i]); p != nil {
					full = p.Path() + "." + name[i+1:]
				} else if name[:i] == "io" || name[:i] == "hash" || name[:i] == "error" {
					full = name
				}
			} else if name == "error" {
				full = "error"
			} else {
				full = ct.Pkg + "." + name
			}
			if full+meth != k {
				delete(m, k)
				m[full+meth] = ct
			}
			ct.Name = full + meth
		}
	}
	canon(e.db.IfaceMeths, true)
	canon(e.db.FuncTypes, false)
	return nil
}

func isBuiltinSortName(s string) bool {
	switch s {
	case "Iface", "Addr", "Slice", "Int", "Str", "Bool", "Func", "string":
		return true
	}
	return false
}

// ---------- verifying one function ----------

type FuncResult struct {
	Key       string
	Obls      []*Obligation
	Aborted   string
	Paths     int
	Returns   int
	Unknown   map[string]int
	Trusted   map[string]bool
	Used      map[string]bool // concrete functions whose contract this proof relied on
	Inlined   map[string]bool
	Assumed   map[string]bool
	Prelude   string
	Axioms    []string
	SpecError string
}

func (e *Engine) VerifyFunction(key string, property string, safety bool) (res *FuncResult) {
	res = &FuncResult{Key: key}
	fn := e.funcs[key]
	if fn == nil {
		res.Aborted = "function not found: " + key
		return
	}
	if fn.Blocks == nil {
		res.Aborted = "function has no body: " + key
		return
	}
	ct := e.db.Contracts[key]
	c := &Ctx{eng: e, reg: NewRegistry(), fn: fn, contract: ct, property: property, maxPaths: 4000,
		unknownCalls: map[string]int{}, trustedUsed: map[string]bool{}, usedContracts: map[string]bool{}, inlined: map[string]bool{}, ifaceTypes: map[string]types.Type{},
		instrOrd: map[ssa.Instruction]int{}, memSorts: map[string]string{}, safety: safety, usedPures: map[string]bool{}, assumedClauses: map[string]bool{}, skippedAtReturn: map[string]int{}}
	if ct != nil {
		if v, ok := ct.FlagArgs["maxpaths"]; ok {
			fmt.Sscanf(v, "%d", &c.maxPaths)
		}
		c.prune = ct.Flags["prune"]
	}
	defer func() {
		if r := recover(); r != nil {
			switch x := r.(type) {
			case abortErr:
				res.Aborted = x.msg
			case specErr:
				res.SpecError = x.msg
				res.Aborted = "contract error: " + x.msg
			default:
				panic(r)
			}
		}
		res.Obls = c.obls
		res.Paths = c.paths
		res.Returns = c.returns
		res.Unknown = c.unknownCalls
		res.Trusted = c.trustedUsed
		res.Used = c.usedContracts
		res.Inlined = c.inlined
		res.Assumed = c.assumedClauses
		if c.foreignUsed {
			res.Assumed["separation: calls with 'assigns foreign' (assemblers, callbacks) do not write the objects directly referenced by the pointer/slice parameters of "+c.fnKey()+""] = true
		}
		c.finish(res)
	}()
	c.run()
	if c.aborted != "" {
		res.Aborted = c.aborted
	}
	// "rejects <cond>": from any state satisfying cond (a misuse state; the ordinary preconditions
	// are NOT assumed) the function never returns normally
	if ct != nil && c.aborted == "" {
		for _, cl := range ct.Clauses {
			if cl.Kind == "rejects" && c.tagSelected(cl.Tags) {
				c.rejectClause = cl
				savedSafety := c.safety
				c.safety = false
				c.run()
				c.safety = savedSafety
				c.rejectClause = nil
				if c.aborted != "" {
					res.Aborted = c.aborted
					break
				}
			}
		}
	}
	return
}

func (c *Ctx) run() {
	fn := c.fn
	ct := c.contract
	c.reg.AddDecl("h0", "(declare-const h0 Int)\n(assert (>= h0 1))")
	c.h0 = "h0"
	st := &State{mem: map[string]string{}, bases: map[string][]memBase{}, heapTop: "h0", active: map[string]int{}, vars: map[string]varBinding{}, epoch: "0"}
	fr := c.newFrame(fn, nil)
	fr.top = true
	fr.contract = ct
	c.topFrame = fr
	c.stack = []*ssa.Function{fn}
	var args []T
	for _, p := range fn.Params {
		so := c.reg.SortOf(p.Type())
		n := "p_" + sanitize(p.Name())
		st.emit("(declare-const " + n + " " + so + ")")
		st.assume(c.wf(n, p.Type(), "h0"))
		t := T{S: n, So: so, Ty: p.Type()}
		fr.regs[p] = t
		args = append(args, t)
		st.vars[c.frameVarKey(fr, p.Name())] = varBinding{val: t, ty: p.Type()}
	}
	for _, fv := range fn.FreeVars {
		so := c.reg.SortOf(fv.Type())
		n := "fv_" + sanitize(fv.Name())
		st.emit("(declare-const " + n + " " + so + ")")
		st.assume(c.wf(n, fv.Type(), "h0"))
		st.assume("(not (= " + n + " nil))")
		t := T{S: n, So: so, Ty: fv.Type()}
		fr.regs[fv] = t
		if pt, ok := fv.Type().Underlying().(*types.Pointer); ok {
			st.vars[c.frameVarKey(fr, fv.Name())] = varBinding{val: t, isAddr: true, ty: pt.Elem()}
		}
	}
	fr.paramSet = map[string]bool{}
	fr.paramObjs = map[string]types.Object{}
	for _, p := range fn.Params {
		fr.paramSet[p.Name()] = true
		if p.Object() != nil {
			fr.paramObjs[p.Name()] = p.Object()
		}
	}
	fr.env = c.contractEnv(ct, fn.Signature, fn, args, nil)
	// receiver by its source name even when the signature lost it
	if fn.Signature.Recv() != nil && len(fn.Params) > 0 {
		fr.env[fn.Params[0].Name()] = args[0]
	}
	for i, p := range fn.Params {
		if _, ok := fr.env[p.Name()]; !ok {
			fr.env[p.Name()] = args[i]
		}
	}
	c.entrySnap = st.snap()
	fr.entry = c.entrySnap
	hasRequires := false
	if ct != nil && c.rejectClause != nil {
		se := &SpecEnv{c: c, st: st, vars: fr.env, pkg: ct.Pkg, fr: fr}
		st.assume(se.assumeF(c.rejectClause.E))
		c.obls = append(c.obls, &Obligation{Func: c.fnKey(), Kind: "rejects", Name: c.fnKey() + "#rejects-nonvacuous#" + c.rejectClause.Hash(), Desc: "the misuse condition is satisfiable: " + normSpace(c.rejectClause.Text), Goal: "false", Lines: st.lines.collect(), Expect: "sat", Clause: c.rejectClause, Tags: c.rejectClause.Tags})
	} else if ct != nil {
		se := &SpecEnv{c: c, st: st, vars: fr.env, pkg: ct.Pkg, fr: fr}
		for _, cl := range ct.Clauses {
			if cl.Kind == "requires" {
				st.assume(se.assumeF(cl.E))
				hasRequires = true
			}
		}
	}
	// vacuity: the entry assumptions must be satisfiable (nothing to check without preconditions)
	if hasRequires {
		c.obls = append(c.obls, &Obligation{Func: c.fnKey(), Kind: "nonvacuous", Name: c.fnKey() + "#nonvacuous", Desc: "preconditions and type invariants are satisfiable", Goal: "false", Lines: st.lines.collect(), Expect: "sat"})
	}
	names := resultNames(ct, fn.Signature)
	fr.onReturn = func(st2 *State, results []T) {
		c.returns++
		if ct == nil {
			return
		}
		if c.rejectClause != nil {
			cl := c.rejectClause
			c.obls = append(c.obls, &Obligation{Func: c.fnKey(), Kind: "rejects", Name: c.fnKey() + "#rejects#" + cl.Hash(), Desc: "no normal return when: " + normSpace(cl.Text), Goal: "false", Lines: st2.lines.collect(), Clause: cl, Tags: cl.Tags, Path: strings.Join(st2.pathDesc, ",")})
			return
		}
		env := map[string]T{}
		for k, v := range fr.env {
			env[k] = v
		}
		bindResults(env, names, results)
		se := &SpecEnv{c: c, st: st2, vars: env, pkg: ct.Pkg, old: c.entrySnap, fr: fr}
		for _, cl := range ct.Clauses {
			if cl.Kind == "returns" {
				ty, _ := se.resolveType(cl.Text)
				for i, n := range names {
					if n == cl.Callee && i < len(results) {
						c.obls = append(c.obls, &Obligation{Func: c.fnKey(), Kind: "returns", Name: c.fnKey() + "#returns#" + cl.Callee, Desc: "result " + cl.Callee + " has dynamic type " + cl.Text, Goal: fmt.Sprintf("(= (itag %s) %d)", results[i].S, c.reg.TagOf(ty)), Lines: st2.lines.collect(), Clause: cl, Path: strings.Join(st2.pathDesc, ",")})
					}
				}
			}
			if cl.Kind != "ensures" {
				continue
			}
			for _, cj := range se.splitConjuncts(cl.E, 0) {
				// evaluated even when the clause's tags are not selected: evaluation emits the
				// well-typedness facts of the values it reads, and later proofs must not depend on
				// which property is being checked
				g, unresolved := c.proveAtReturn(se, cj)
				if unresolved != "" {
					// the conjunct mentions a local that does not exist at this return point: for
					// "A ==> B" the obligation is that A is false here; anything else is an error
					if imp, ok := cj.(*EBinary); ok && imp.Op == "==>" {
						g2, un2 := c.proveAtReturn(se, &EUnary{"!", imp.L})
						if un2 != "" {
							// the antecedent itself speaks about a local that does not exist on this path:
							// the clause does not apply here (recorded, see evidence "clauses_not_applicable_at_return")
							c.skippedAtReturn[normSpace(cl.Text)]++
							continue
						}
						g = g2
					} else {
						panic(specErr{"postcondition mentions unknown name " + unresolved + " at a return point: " + cj.String()})
					}
				}
				if g == "true" || !c.tagSelected(cl.Tags) {
					continue
				}
				o := &Obligation{Func: c.fnKey(), Kind: "ensures", Name: c.fnKey() + "#ensures#" + cl.Hash(), Desc: "postcondition: " + cj.String(), Goal: g, Lines: st2.lines.collect(), Clause: cl, Tags: cl.Tags, Path: strings.Join(st2.pathDesc, ",")}
				c.obls = append(c.obls, o)
			}
		}
	}
	c.execBlock(fr, fn.Blocks[0], nil, st)
}

// finish assigns stable names and assembles the shared prelude.
func (c *Ctx) finish(res *FuncResult) {
	// rank implicit obligations per kind by instruction order
	type ik struct {
		kind string
		ins  string
	}
	byKind := map[string][]ssa.Instruction{}
	seen := map[ik]bool{}
	insOf := map[string]ssa.Instruction{}
	for in := range c.instrOrd {
		insOf[fmt.Sprintf("%p", in)] = in
	}
	for _, o := range c.obls {
		if in, ok := insOf[o.Name]; ok {
			k := ik{o.Kind, o.Name}
			if !seen[k] {
				seen[k] = true
				byKind[o.Kind] = append(byKind[o.Kind], in)
			}
		}
	}
	rank := map[ik]int{}
	for kind, ins := range byKind {
		sort.Slice(ins, func(i, j int) bool {
			fi, fj := ins[i].Parent().String(), ins[j].Parent().String()
			if fi != fj {
				return fi < fj
			}
			return c.instrOrd[ins[i]] < c.instrOrd[ins[j]]
		})
		for i, in := range ins {
			rank[ik{kind, fmt.Sprintf("%p", in)}] = i
		}
	}
	for _, o := range c.obls {
		if _, ok := insOf[o.Name]; ok {
			r := rank[ik{o.Kind, o.Name}]
			if o.Clause != nil {
				o.Name = fmt.Sprintf("%s#%s#%s@%d", c.fnKey(), o.Kind, o.Clause.Hash(), r)
			} else {
				o.Name = fmt.Sprintf("%s#%s#%d", c.fnKey(), o.Kind, r)
			}
		}
	}
	// axioms: closure over used pure functions
	var axLines []string
	included := map[*Axiom]bool{}
	for changed := true; changed; {
		changed = false
		for _, ax := range c.eng.db.Axioms {
			if included[ax] {
				continue
			}
			use := false
			for name := range c.usedPures {
				if mentionsShort(ax.Body, name) {
					use = true
					break
				}
			}
			if !use {
				continue
			}
			included[ax] = true
			changed = true
			func() {
				defer func() {
					if r := recover(); r != nil {
						if se, ok := r.(specErr); ok {
							res.SpecError = "axiom " + ax.Name + ": " + se.msg
							return
						}
						panic(r)
					}
				}()
				dummy := &State{mem: map[string]string{}, bases: map[string][]memBase{}, heapTop: "h0", active: map[string]int{}, vars: map[string]varBinding{}, epoch: "0"}
				se := &SpecEnv{c: c, st: dummy, vars: map[string]T{}, pkg: ax.Pkg, noFacts: true}
				axLines = append(axLines, "; axiom "+ax.Name+"\n(assert "+se.assumeF(ax.Body)+")")
				res.Axioms = append(res.Axioms, ax.Name)
			}()
		}
	}
	res.Prelude = c.reg.Prelude() + c.reg.ImplementsFacts(c.ifaceTypes) + strings.Join(axLines, "\n") + "\n"
}

func mentionsShort(e Expr, name string) bool {
	found := false
	if strings.HasPrefix(name, "ghost:") {
		// an axiom about a ghost field that the function's obligations read
		walkExpr(e, func(x Expr) {
			if s, ok := x.(*ESel); ok && s.F == name[6:] {
				found = true
			}
		})
		return found
	}
	walkExpr(e, func(x Expr) {
		if c, ok := x.(*ECall); ok {
			s := c.Fn
			if i := strings.LastIndex(s, "."); i >= 0 {
				s = s[i+1:]
			}
			if s == name {
				found = true
			}
		}
		if id, ok := x.(*EIdent); ok && id.Name == name {
			found = true
		}
	})
	return found
}

func walkExpr(e Expr, f func(Expr)) {
	if e == nil {
		return
	}
	f(e)
	switch x := e.(type) {
	case *ECall:
		for _, a := range x.Args {
			walkExpr(a, f)
		}
	case *ESel:
		walkExpr(x.X, f)
	case *EIndex:
		walkExpr(x.X, f)
		walkExpr(x.I, f)
	case *EUnary:
		walkExpr(x.X, f)
	case *EBinary:
		walkExpr(x.L, f)
		walkExpr(x.R, f)
	case *ECond:
		walkExpr(x.C, f)
		walkExpr(x.A, f)
		walkExpr(x.B, f)
	case *EQuant:
		walkExpr(x.Body, f)
	case *ESlice:
		walkExpr(x.X, f)
		walkExpr(x.Lo, f)
		walkExpr(x.Hi, f)
	}
}

func mentions(e Expr, name string) bool {
	switch x := e.(type) {
	case *EIdent:
		return x.Name == name
	case *ECall:
		if x.Fn == name {
			return true
		}
		for _, a := range x.Args {
			if mentions(a, name) {
				return true
			}
		}
	case *ESel:
		return mentions(x.X, name)
	case *EIndex:
		return mentions(x.X, name) || mentions(x.I, name)
	case *EUnary:
		return mentions(x.X, name)
	case *EBinary:
		return mentions(x.L, name) || mentions(x.R, name)
	case *ECond:
		return mentions(x.C, name) || mentions(x.A, name) || mentions(x.B, name)
	case *EQuant:
		return mentions(x.Body, name)
	case *ESlice:
		return mentions(x.X, name)
	}
	return false
}

// Query text for an obligation.
func (o *Obligation) Query(prelude string, wantModel bool) string {
	var sb strings.Builder
	if wantModel {
		sb.WriteString("(set-option :produce-models true)\n")
	}
	sb.WriteString(prelude)
	for _, l := range o.Lines {
		sb.WriteString(l)
		sb.WriteString("\n")
	}
	if o.Expect == "sat" {
		sb.WriteString("(check-sat)\n")
		return sb.String()
	}
	sb.WriteString("(assert (not " + o.Goal + "))\n(check-sat)\n")
	if wantModel {
		sb.WriteString("(get-model)\n")
	}
	return sb.String()
}

// constGlobal: value of a package-level variable that is never stored outside init,
// read from a ground initialiser supplied by the spec ("constglobal"), see initvals.go.
func (c *Ctx) constGlobal(st *State, g *ssa.Global) (T, bool) {
	full := g.Pkg.Pkg.Path() + "." + g.Name()
	if !c.eng.db.ConstGlobs[full] {
		return T{}, false
	}
	return c.eng.constGlobalValue(c, st, g)
}

func (c *Ctx) feasible(st *State) bool {
	q := c.reg.Prelude() + strings.Join(st.lines.collect(), "\n") + "\n(check-sat)\n"
	r := c.eng.solver.quickCheck(q)
	return r != "unsat"
}

// proveAtReturn evaluates a postcondition conjunct; when it mentions an identifier that is not
// bound at this return point (a local variable of a later part of the function) the name is returned.
func (c *Ctx) proveAtReturn(se *SpecEnv, e Expr) (g string, unresolved string) {
	defer func() {
		if r := recover(); r != nil {
			if se2, ok := r.(specErr); ok && strings.HasPrefix(se2.msg, "unknown identifier ") {
				unresolved = strings.TrimPrefix(se2.msg, "unknown identifier ")
				se.pol = 0
				se.nested = false
				se.facts = nil
				return
			}
			panic(r)
		}
	}()
	return se.prove(e), ""
}

// expandSweeps turns the schematic "sweep ... assigns nothing: names" contracts into one contract
// per matching function that has none, and tags matching explicit "assigns nothing" contracts.
func (e *Engine) expandSweeps() {
	for _, sw := range e.db.Sweeps {
		var keys []string
		for k := range e.funcs {
			keys = append(keys, k)
		}
		sort.Strings(keys)
		for _, k := range keys {
			fn := e.funcs[k]
			if funcPkgPath(fn) != sw.Pkg || fn.Synthetic != "" || fn.Parent() != nil || len(fn.Blocks) == 0 {
				continue
			}
			rel := relFuncName(fn)
			match := sw.Names["*"]
			if fn.Signature.Recv() != nil {
				t := fn.Signature.Recv().Type()
				if pt, ok := t.(*types.Pointer); ok {
					t = pt.Elem()
				}
				if nt, ok := t.(*types.Named); ok && sw.Names[nt.Obj().Name()] {
					match = true
				}
			} else if sw.Names["func "+rel] {
				match = true
			}
			if !match {
				continue
			}
			key := sw.Pkg + "::" + rel
			if ct, ok := e.db.Contracts[key]; ok {
				for _, cl := range ct.Clauses {
					if cl.Kind == "assigns" && len(cl.Locs) == 0 && (normSpace(cl.Text) == "nothing" || normSpace(cl.Text) == "") {
						cl.Tags = append(cl.Tags, sw.Tags...)
					}
				}
				continue
			}
			ct := &Contract{Pkg: sw.Pkg, Kind: "func", Name: rel, Flags: map[string]bool{"synthetic": true}, FlagArgs: map[string]string{}, File: sw.File, Line: sw.Line}
			if fn.Signature.Recv() != nil && len(fn.Params) > 0 && fn.Params[0].Name() != "" && fn.Params[0].Name() != "_" {
				if _, isPtr := fn.Signature.Recv().Type().(*types.Pointer); isPtr {
					// type invariant of a method value: the receiver of a pointer method is not nil
					txt := fn.Params[0].Name() + " != nil"
					if ex, err := ParseSpecExpr(txt); err == nil {
						ct.Clauses = append(ct.Clauses, &Clause{Kind: "requires", Text: txt, E: ex, File: sw.File, Line: sw.Line, Site: -1})
					}
				}
			}
			ct.Clauses = append(ct.Clauses, &Clause{Kind: "assigns", Text: "nothing", Tags: sw.Tags, File: sw.File, Line: sw.Line, Site: -1})
			e.db.Contracts[key] = ct
		}
	}
}
