package main

import (
	"fmt"
	"go/types"
	"strings"

	"golang.org/x/tools/go/ssa"
)

// ---------- persistent line list ----------

type lineNode struct {
	parent *lineNode
	text   string
	n      int
}

func (l *lineNode) push(s string) *lineNode {
	n := 1
	if l != nil {
		n = l.n + 1
	}
	return &lineNode{l, s, n}
}

func (l *lineNode) collect() []string {
	if l == nil {
		return nil
	}
	out := make([]string, l.n)
	for x := l; x != nil; x = x.parent {
		out[x.n-1] = x.text
	}
	return out
}

type memBase struct {
	sym string
	top string
}

type varBinding struct {
	val    T
	isAddr bool
	ty     types.Type
}

type MemSnap struct {
	mem     map[string]string
	heapTop string
	epoch   string
}

type State struct {
	lines    *lineNode
	mem      map[string]string
	bases    map[string][]memBase
	heapTop  string
	active   map[string]int // loop header key -> visit count (or 1 = active cut point)
	vars     map[string]varBinding
	pathDesc []string
	ownRoots *lineNode // roots (heapTop terms) of objects allocated by the function under verification on this path
	epoch    string    // id of the last havoc-everything event ("0" = function entry)
	epochTop string
	iterTop  string // heap top at the start of the current iteration of the innermost loop being verified ("" outside loops)
}

func (s *State) clone() *State {
	n := &State{lines: s.lines, heapTop: s.heapTop, epoch: s.epoch, epochTop: s.epochTop, ownRoots: s.ownRoots, iterTop: s.iterTop}
	n.mem = make(map[string]string, len(s.mem))
	for k, v := range s.mem {
		n.mem[k] = v
	}
	n.bases = make(map[string][]memBase, len(s.bases))
	for k, v := range s.bases {
		n.bases[k] = v
	}
	n.active = make(map[string]int, len(s.active))
	for k, v := range s.active {
		n.active[k] = v
	}
	n.vars = make(map[string]varBinding, len(s.vars))
	for k, v := range s.vars {
		n.vars[k] = v
	}
	n.pathDesc = append([]string(nil), s.pathDesc...)
	return n
}

func (s *State) snap() *MemSnap {
	m := make(map[string]string, len(s.mem))
	for k, v := range s.mem {
		m[k] = v
	}
	return &MemSnap{m, s.heapTop, s.epoch}
}

func (s *State) emit(line string) { s.lines = s.lines.push(line) }
func (s *State) assume(f string) {
	if f == "true" || f == "" {
		return
	}
	s.emit("(assert " + f + ")")
}

// ---------- verification context ----------

type Obligation struct {
	Name   string // stable name
	Func   string
	Kind   string
	Desc   string
	Tags   []string
	Lines  []string
	Goal   string
	Path   string
	Clause *Clause
	Pos    string
	// results
	Expect   string // "" = goal must be valid (negation unsat); "sat" = lines must be satisfiable
	Status   string // unsat(discharged) sat unknown timeout error
	Solver   string
	Time     float64
	Model    string
	QueryLen int
	Trivial  bool // goal is syntactically true: discharged by construction, no solver call
}

type Frame struct {
	id        int
	fn        *ssa.Function
	regs      map[ssa.Value]T
	onReturn  func(st *State, results []T)
	defers    []func(st *State, k func(st *State))
	depth     int
	parent    *Frame
	loops     map[*ssa.BasicBlock]*loopInfo
	contract  *Contract
	entry     *MemSnap
	env       map[string]T // param / result names for the contract
	paramSet  map[string]bool
	paramObjs map[string]types.Object
	top       bool
}

type loopInfo struct {
	ordinal int
	header  *ssa.BasicBlock
	body    map[*ssa.BasicBlock]bool
	writes  bool // body contains stores / calls
}

type Ctx struct {
	eng             *Engine
	reg             *Registry
	fn              *ssa.Function
	contract        *Contract
	obls            []*Obligation
	counter         int
	frameCtr        int
	paths           int
	maxPaths        int
	aborted         string
	property        string // selected property tag ("" = all)
	unknownCalls    map[string]int
	trustedUsed     map[string]bool
	usedContracts   map[string]bool // keys of concrete (verifiable) functions whose contract was applied at a call site
	inlined         map[string]bool
	ifaceTypes      map[string]types.Type
	ordinals        map[string]int
	instrOrd        map[ssa.Instruction]int
	h0              string
	entrySnap       *MemSnap
	topFrame        *Frame
	stack           []*ssa.Function
	safety          bool
	returns         int
	memSorts        map[string]string
	prune           bool
	usedPures       map[string]bool
	rejectClause    *Clause // set during a "rejects" pass (misuse state assumed, every normal return must be unreachable)
	ignoreWith      bool
	callArgRoots    []string // roots of the objects directly referenced by the arguments of the call being applied
	assumedClauses  map[string]bool
	foreignUsed     bool
	skippedAtReturn map[string]int
}

func (c *Ctx) freshName(prefix string) string {
	c.counter++
	return fmt.Sprintf("%s_%d", prefix, c.counter)
}

func (c *Ctx) declare(st *State, prefix, sort string) string {
	n := c.freshName(prefix)
	st.emit("(declare-const " + n + " " + sort + ")")
	return n
}

func (c *Ctx) define(st *State, prefix, sort, term string) string {
	// avoid defining trivial aliases
	if !strings.ContainsAny(term, " (") {
		return term
	}
	n := c.freshName(prefix)
	st.emit("(define-fun " + n + " () " + sort + " " + term + ")")
	return n
}

// memory key -> sort of the whole memory
func (c *Ctx) memSymSort(key string) string {
	if s, ok := c.memSorts[key]; ok {
		return s
	}
	parts := strings.SplitN(key, ":", 3)
	var s string
	switch parts[0] {
	case "M":
		s = "(Array Addr " + parts[1] + ")"
	case "MD":
		s = "(Array Addr (Array " + parts[1] + " Bool))"
	case "MV":
		kv := strings.SplitN(key[3:], "|", 2)
		s = "(Array Addr (Array " + kv[0] + " " + kv[1] + "))"
	case "ML":
		s = "(Array Addr Int)"
	default:
		panic("unknown mem key " + key)
	}
	c.memSorts[key] = s
	return s
}

func (c *Ctx) initMemName(epoch, key string) string {
	n := "m" + epoch + "_" + sanitize(key)
	c.reg.AddDecl("mem:"+epoch+":"+key, "(declare-const "+n+" "+c.memSymSort(key)+")")
	return n
}

func (c *Ctx) mem(st *State, key string) string {
	if s, ok := st.mem[key]; ok {
		return s
	}
	return c.initMemName(st.epoch, key)
}

func (c *Ctx) snapMem(sn *MemSnap, key string) string {
	if s, ok := sn.mem[key]; ok {
		return s
	}
	return c.initMemName(sn.epoch, key)
}

func (c *Ctx) setMem(st *State, key, term string) {
	n := c.freshName("m_" + sanitize(key))
	st.emit("(define-fun " + n + " () " + c.memSymSort(key) + " " + term + ")")
	st.mem[key] = n
}

// havocMem replaces memory key by a fresh symbol (recorded as a base for wf facts).
func (c *Ctx) havocMem(st *State, key string) (old, nw string) {
	old = c.mem(st, key)
	nw = c.freshName("mh_" + sanitize(key))
	st.emit("(declare-const " + nw + " " + c.memSymSort(key) + ")")
	st.mem[key] = nw
	st.bases[key] = append(append([]memBase(nil), st.bases[key]...), memBase{nw, st.heapTop})
	return
}

func (c *Ctx) basesOf(st *State, key string) []memBase {
	b := st.bases[key]
	top := c.h0
	if st.epoch != "0" {
		top = st.epochTop
	}
	out := []memBase{{c.initMemName(st.epoch, key), top}}
	out = append(out, b...)
	return out
}

// ---------- typed memory access ----------

func leafKey(sort string) string { return "M:" + sort }

func isLeafSort(s string) bool {
	for _, l := range leafSorts {
		if l == s {
			return true
		}
	}
	return false
}

func (c *Ctx) zero(t types.Type) string {
	switch u := t.Underlying().(type) {
	case *types.Struct:
		si := c.reg.structInfoOf(t)
		if len(si.fields) == 0 {
			return "(mk_" + si.name + " 0)"
		}
		parts := []string{"mk_" + si.name}
		for i := 0; i < u.NumFields(); i++ {
			parts = append(parts, c.zero(u.Field(i).Type()))
		}
		return "(" + strings.Join(parts, " ") + ")"
	case *types.Array:
		return c.zeroArrayConst(c.reg.SortOf(u.Elem()), c.zero(u.Elem()))
	}
	switch c.reg.SortOf(t) {
	case "Int":
		return "0"
	case "Bool":
		return "false"
	case "Str":
		return "str_empty"
	case "F64":
		return "(f64_lit 0)"
	case "Addr":
		return "nil"
	case "Slice":
		return "nil_slice"
	case "Iface":
		return "nil_iface"
	case "Func":
		return "nil_func"
	}
	return "0"
}

// wf returns the well-formedness fact for a value of Go type t (range, allocatedness).
func (c *Ctx) wf(v string, t types.Type, top string) string {
	switch u := t.Underlying().(type) {
	case *types.Struct:
		si := c.reg.structInfoOf(t)
		var fs []string
		for i := 0; i < u.NumFields(); i++ {
			fs = append(fs, c.wf(fmt.Sprintf("(%s_f%d %s)", si.name, i, v), u.Field(i).Type(), top))
		}
		return and(fs...)
	case *types.Array:
		if u.Len() <= 16 {
			var fs []string
			for i := int64(0); i < u.Len(); i++ {
				fs = append(fs, c.wf(fmt.Sprintf("(select %s %d)", v, i), u.Elem(), top))
			}
			return and(fs...)
		}
		return "true"
	}
	switch c.reg.SortOf(t) {
	case "Int":
		if ii, ok := intInfoOf(t); ok {
			return ii.rangeFact(v)
		}
	case "Addr":
		ty := "true"
		if pt, ok := t.Underlying().(*types.Pointer); ok {
			c.reg.SortOf(pt.Elem()) // registers struct pointees so that their field-type axioms are emitted
			ty = fmt.Sprintf("(=> (not (= %s nil)) (= (atype %s) %d))", v, v, c.reg.TypeID(pt.Elem()))
		}
		return "(and (<= (root " + v + ") " + top + ") (< (- 100000) (root " + v + ")) " + ty + ")"
	case "Slice":
		if sl, ok := t.Underlying().(*types.Slice); ok {
			return fmt.Sprintf("(and (=> (not (= (sarr %s) nil)) (= (atype (sarr %s)) %d)) (<= (scap %s) %s) %s)", v, v, c.reg.ArrID(sl.Elem()), v, existingCapLimit(sl.Elem()), c.wfSliceBase(v, top))
		}
		return c.wfSliceBase(v, top)
	case "SliceBase":
		return "(and (<= (root (sarr " + v + ")) " + top + ") (< (- 100000) (root (sarr " + v + "))) (<= 0 (soff " + v + ")) (<= 0 (slen " + v + ")) (<= (slen " + v + ") (scap " + v + ")) (<= (scap " + v + ") 4611686018427387904) (=> (= (sarr " + v + ") nil) (= " + v + " nil_slice)))"
	case "Iface":
		return "(and (<= (root (ipay " + v + ")) " + top + ") (< (- 100000) (root (ipay " + v + "))) (>= (itag " + v + ") 0) (=> (= (itag " + v + ") 0) (= " + v + " nil_iface)))"
	case "Func":
		return "(and (<= (root (fenv " + v + ")) " + top + ") (< (- 100000) (root (fenv " + v + "))) (>= (fid " + v + ") 0) (=> (= (fid " + v + ") 0) (= " + v + " nil_func)))"
	}
	return "true"
}

// loadAt reads a value of type t at address addr from the given memory lookup.
func (c *Ctx) loadWith(memOf func(key string) string, addr string, t types.Type) string {
	switch u := t.Underlying().(type) {
	case *types.Struct:
		si := c.reg.structInfoOf(t)
		if len(si.fields) == 0 {
			return "(mk_" + si.name + " 0)"
		}
		parts := []string{"mk_" + si.name}
		for i := 0; i < u.NumFields(); i++ {
			parts = append(parts, c.loadWith(memOf, fmt.Sprintf("(fld %s %d)", addr, i), u.Field(i).Type()))
		}
		return "(" + strings.Join(parts, " ") + ")"
	case *types.Array:
		// build by store chain for small arrays
		es := c.reg.SortOf(u.Elem())
		if u.Len() <= 16 {
			term := c.zeroArrayConst(es, c.zero(u.Elem()))
			for i := int64(0); i < u.Len(); i++ {
				term = fmt.Sprintf("(store %s %d %s)", term, i, c.loadWith(memOf, fmt.Sprintf("(elem %s %d)", addr, i), u.Elem()))
			}
			return term
		}
		// large arrays: opaque
		n := c.freshName("bigarr")
		c.reg.AddDecl(n, "(declare-const "+n+" (Array Int "+es+"))")
		return n
	}
	so := c.reg.SortOf(t)
	return "(select " + memOf(leafKey(so)) + " " + addr + ")"
}

func (c *Ctx) load(st *State, addr string, t types.Type) T {
	term := c.loadWith(func(k string) string { return c.mem(st, k) }, addr, t)
	so := c.reg.SortOf(t)
	name := c.define(st, "ld", so, term)
	// wf facts
	st.assume(c.wf(name, t, st.heapTop))
	c.baseFacts(st, addr, t)
	return T{S: name, So: so, Ty: t}
}

// baseFacts: pointers found in never-overwritten cells of a havoc base are older than that base.
func (c *Ctx) baseFacts(st *State, addr string, t types.Type) {
	switch u := t.Underlying().(type) {
	case *types.Struct:
		for i := 0; i < u.NumFields(); i++ {
			c.baseFacts(st, fmt.Sprintf("(fld %s %d)", addr, i), u.Field(i).Type())
		}
		return
	case *types.Array:
		return
	}
	so := c.reg.SortOf(t)
	if so != "Addr" && so != "Slice" && so != "Iface" && so != "Func" {
		return
	}
	key := leafKey(so)
	for _, b := range c.basesOf(st, key) {
		v := "(select " + b.sym + " " + addr + ")"
		st.assume("(=> (<= (root " + addr + ") " + b.top + ") " + c.wf(v, t, b.top) + ")")
	}
}

func (c *Ctx) store(st *State, addr string, t types.Type, val string) {
	switch u := t.Underlying().(type) {
	case *types.Struct:
		si := c.reg.structInfoOf(t)
		for i := 0; i < u.NumFields(); i++ {
			c.store(st, fmt.Sprintf("(fld %s %d)", addr, i), u.Field(i).Type(), fmt.Sprintf("(%s_f%d %s)", si.name, i, val))
		}
		return
	case *types.Array:
		if u.Len() <= 16 {
			for i := int64(0); i < u.Len(); i++ {
				c.store(st, fmt.Sprintf("(elem %s %d)", addr, i), u.Elem(), fmt.Sprintf("(select %s %d)", val, i))
			}
			return
		}
		// large arrays: havoc the leaf memories of the element type inside this array only
		c.havocRegionOfArray(st, addr, u.Elem())
		return
	}
	so := c.reg.SortOf(t)
	key := leafKey(so)
	c.setMem(st, key, "(store "+c.mem(st, key)+" "+addr+" "+val+")")
}

// leafPaths enumerates leaf cells of a type as (address builder, type)
type leafPath struct {
	path []int // field indexes (no arrays inside)
	ty   types.Type
}

func (c *Ctx) leafPaths(t types.Type, prefix []int) []leafPath {
	switch u := t.Underlying().(type) {
	case *types.Struct:
		var out []leafPath
		for i := 0; i < u.NumFields(); i++ {
			out = append(out, c.leafPaths(u.Field(i).Type(), append(append([]int(nil), prefix...), i))...)
		}
		return out
	case *types.Array:
		// treated as opaque leaf of array sort is not supported in bulk ops; skip
		return nil
	}
	return []leafPath{{prefix, t}}
}

func applyPath(addr string, path []int) string {
	for _, i := range path {
		addr = fmt.Sprintf("(fld %s %d)", addr, i)
	}
	return addr
}

func (c *Ctx) havocRegionOfArray(st *State, arr string, elem types.Type) {
	seen := map[string]bool{}
	for _, lp := range c.leafPaths(elem, nil) {
		key := leafKey(c.reg.SortOf(lp.ty))
		if seen[key] {
			continue
		}
		seen[key] = true
		old, nw := c.havocMem(st, key)
		st.assume("(forall ((a Addr)) (! (=> (not (= (root a) (root " + arr + "))) (= (select " + nw + " a) (select " + old + " a))) :pattern ((select " + nw + " a))))")
	}
}

// boxMem: the immutable memory holding boxed non-pointer dynamic values of interfaces.
func (c *Ctx) boxMem(key string) string {
	n := "box_" + sanitize(key)
	c.reg.AddDecl("box:"+key, "(declare-const "+n+" "+c.boxSort(key)+")")
	return n
}

func (c *Ctx) boxSort(key string) string {
	parts := strings.SplitN(key, ":", 2)
	return "(Array Addr " + parts[1] + ")"
}

func (c *Ctx) loadBox(st *State, addr string, t types.Type) T {
	term := c.loadWith(c.boxMem, addr, t)
	so := c.reg.SortOf(t)
	name := c.define(st, "bx", so, term)
	st.assume(c.wf(name, t, st.heapTop))
	return T{S: name, So: so, Ty: t}
}

// zeroArrayConst: an array whose every element is the given zero term (declared once, axiomatised;
// "(as const ...)" is avoided because cvc5 only accepts value literals there).
func (c *Ctx) zeroArrayConst(elemSort, zero string) string {
	n := "zeroarr_" + sanitize(elemSort)
	c.reg.AddDecl("zeroarr:"+elemSort, "(declare-const "+n+" (Array Int "+elemSort+"))\n(assert (forall ((i Int)) (! (= (select "+n+" i) "+zero+") :pattern ((select "+n+" i)))))")
	return n
}

func (c *Ctx) wfSliceBase(v, top string) string {
	return "(and (<= (root (sarr " + v + ")) " + top + ") (< (- 100000) (root (sarr " + v + "))) (<= 0 (soff " + v + ")) (<= 0 (slen " + v + ")) (<= (slen " + v + ") (scap " + v + ")) (<= (scap " + v + ") 4611686018427387904) (=> (= (sarr " + v + ") nil) (= " + v + " nil_slice)))"
}

var stdSizes = types.SizesFor("gc", "amd64")

func elemSize(t types.Type) int64 {
	defer func() { recover() }()
	sz := stdSizes.Sizeof(t)
	if sz < 1 {
		return 1
	}
	return sz
}

// existingCapLimit: a slice that exists occupies at most 2^47 bytes; makeCapLimit: the Go runtime
// refuses (panics on) allocations above 2^48 bytes on 64-bit platforms.
func existingCapLimit(elem types.Type) string { return fmt.Sprint((int64(1) << 47) / elemSize(elem)) }
func makeCapLimit(elem types.Type) string     { return fmt.Sprint((int64(1) << 48) / elemSize(elem)) }
