#!/usr/bin/env python3
# usage: mk_seed_task.py <seed-id> <worktree> [hint] : writes TASK.md for a seeding sub-agent (property text only, nothing from /verif)
import sys, json
sid, wt = sys.argv[1], sys.argv[2]
hint = sys.argv[3] if len(sys.argv) > 3 else ""
pid = sid.split('-')[0]
prop = None
for l in open('/verif/properties.jsonl'):
    p = json.loads(l)
    if p['id'] == pid: prop = p
a = prop.get('anchors') or {}
mech = "\n".join("- %s (%s)" % (m['name'], m['where']) for m in a.get('mechanism', []))
txt = f"""# Task

You are working in `{wt}`, a scratch git worktree of the Go library ipld/go-ipld-prime
(module `github.com/ipld/go-ipld-prime`). Work ONLY inside this directory. Never read or write
`/repo` or `/verif` (or anything under them), and do not `git add`/`git commit` anything.

Every shell call needs: `export GOFLAGS=-mod=mod GOPROXY=off` (there is no network; do NOT set GOSUMDB or
GOTOOLCHAIN). `go build ./...` and `go test -vet=off -count=1 ./...` work offline in this directory.

## The property

**{prop['id']} — {prop.get('title','')}**

{prop['statement']}

Files the property is anchored in: {', '.join(a.get('files', []))}

Mechanisms it rests on:
{mech}

## What to produce

Write ONE change to the library's non-test source (any `.go` file that is not `_test.go`; keep it small, a few lines
to a few dozen) that makes the library BREAK this property while

1. the module still compiles (`go build ./...`),
2. the ENTIRE existing test suite still passes, unedited: `go test -vet=off -count=1 ./... 2>&1 | tail -60`
   (all packages `ok`; takes a few minutes; you must actually run it after your final change), and
3. the breakage needs something SPECIFIC to manifest — an unusual input, a multi-step sequence of operations, a fault
   at a particular point, a particular interleaving, or two cooperating sites that each look fine alone — not
   something ordinary use would expose at once. Make it look like a plausible mistake or "optimisation" a
   maintainer could make, not sabotage, and do not add comments that give it away.
{hint}
Prefer a change in a less central place (a helper, a wrapper, an option default, a fallback path, an error path, a
boundary case) over the single most obvious function, as long as it really breaks the property as stated above.

Also write a demonstration: `zz_demo/main.go` (package main, inside this worktree, importing the library by its
module path) that exercises the public API, prints what it observed, and exits with status 1 if the property is
violated and 0 if it holds. `go run ./zz_demo` must exit 1 WITH your change and exit 0 WITHOUT it — check both
(e.g. `git diff > /tmp/x.diff; git apply -R /tmp/x.diff; go run ./zz_demo; git apply /tmp/x.diff`). The demo must
be deterministic (for a race, use the race detector: say so and use `go run -race ./zz_demo`).

When done, write the change as a patch: `git diff > patch.diff` in the worktree root (the staged deletions that
`git status` shows were made on purpose before you started — leave them alone; `git diff` without arguments shows
only your own edits, which is what is wanted; `zz_demo/`, `patch.diff` and this file stay untracked and out of the
patch). Finally reply with: the file and function you changed, why the existing tests do not notice, what it needs
in order to manifest, and the exact commands you ran with their outcomes (test suite result with the change; demo
exit status with and without the change).
"""
open(wt + '/TASK.md', 'w').write(txt)
