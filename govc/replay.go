package main

// Counterexample replay against the real code (DESIGN.md §3.13): for functions
// whose parameters are scalars, a solver model is turned into an in-package Go
// test injected with `go test -overlay` (nothing is written into /repo).

import (
	"encoding/json"
	"fmt"
	"go/types"
	"os"
	"os/exec"
	"path/filepath"
	"regexp"
	"strings"
)

func parseModelScalars(out string) map[string]string {
	m := map[string]string{}
	// join lines so that "(define-fun x () Int\n  5)" matches
	flat := regexp.MustCompile(`\s+`).ReplaceAllString(out, " ")
	re := regexp.MustCompile(`\(define-fun (p_[A-Za-z0-9_]+) \(\) (Int|Bool) (\(- [0-9]+\)|[0-9]+|true|false)\)`)
	for _, g := range re.FindAllStringSubmatch(flat, -1) {
		v := g[3]
		if strings.HasPrefix(v, "(- ") {
			v = "-" + strings.TrimSuffix(v[3:], ")")
		}
		m[g[1]] = v
	}
	return m
}

// exprToGo translates a scalar contract expression to Go source (nil if not expressible).
func exprToGo(e Expr) (string, bool) {
	switch x := e.(type) {
	case *EIdent:
		return x.Name, true
	case *EInt:
		return x.V, true
	case *EUnary:
		s, ok := exprToGo(x.X)
		if !ok || (x.Op != "!" && x.Op != "-") {
			return "", false
		}
		return "(" + x.Op + s + ")", true
	case *EBinary:
		l, ok1 := exprToGo(x.L)
		r, ok2 := exprToGo(x.R)
		if !ok1 || !ok2 {
			return "", false
		}
		switch x.Op {
		case "==>":
			return "(!(" + l + ") || (" + r + "))", true
		case "<==>":
			return "((" + l + ") == (" + r + "))", true
		case "&&", "||", "==", "!=", "<", "<=", ">", ">=":
			return "(" + l + " " + x.Op + " " + r + ")", true
		case "+", "-", "*":
			return "new(big.Int)." + map[string]string{"+": "Add", "-": "Sub", "*": "Mul"}[x.Op] + "(" + l + ", " + r + ")", false
		}
	case *ECond:
		c, ok1 := exprToGo(x.C)
		a, ok2 := exprToGo(x.A)
		b, ok3 := exprToGo(x.B)
		if ok1 && ok2 && ok3 {
			return "func() int64 { if " + c + " { return int64(" + a + ") }; return int64(" + b + ") }()", true
		}
	}
	return "", false
}

// tryReplay returns (verdict, test source, test output); verdict "" when no replay can be constructed.
func (e *Engine) tryReplay(o *Obligation, fr *FuncResult, outDir string) (string, string, string) {
	fn := e.funcs[fr.Key]
	if fn == nil || fn.Signature.Recv() != nil || fn.Parent() != nil {
		return "", "", ""
	}
	// re-solve asking for a model
	sr := e.solver.SolveT(o.Query(fr.Prelude, true)+"\n", e.solver.timeout)
	if sr.Status != "sat" {
		return "", "", ""
	}
	vals := parseModelScalars(sr.Output)
	var args []string
	for _, p := range fn.Params {
		b, ok := p.Type().Underlying().(*types.Basic)
		if !ok || b.Info()&(types.IsInteger|types.IsBoolean) == 0 {
			return "", "", ""
		}
		v, ok := vals["p_"+sanitize(p.Name())]
		if !ok {
			if b.Info()&types.IsBoolean != 0 {
				v = "false"
			} else {
				v = "0"
			}
		}
		if b.Info()&types.IsInteger != 0 {
			args = append(args, fmt.Sprintf("%s(%s)", types.TypeString(p.Type(), func(p *types.Package) string { return p.Name() }), v))
		} else {
			args = append(args, v)
		}
	}
	pkg := fn.Pkg.Pkg
	var check string
	ct := e.db.Contracts[fr.Key]
	var resNames []string
	for i := 0; i < fn.Signature.Results().Len(); i++ {
		n := fmt.Sprintf("r%d", i)
		resNames = append(resNames, n)
	}
	if o.Clause != nil && o.Clause.Kind == "ensures" && ct != nil {
		g, ok := exprToGo(o.Clause.E)
		if !ok {
			return "", "", ""
		}
		// bind contract names
		var binds []string
		names := resultNames(ct, fn.Signature)
		for i, n := range names {
			if n != "" && n != "_" {
				binds = append(binds, fmt.Sprintf("%s := %s; _ = %s", n, resNames[i], n))
			}
		}
		pn := ct.Params
		for i, p := range fn.Params {
			name := p.Name()
			if pn != nil && i < len(pn) {
				name = pn[i]
			}
			binds = append(binds, fmt.Sprintf("%s := %s; _ = %s", name, args[i], name))
		}
		check = strings.Join(binds, "\n\t") + "\n\tif !(" + g + ") { t.Fatalf(\"VERIF-REPRODUCED: postcondition violated: %s\", " + fmt.Sprintf("%q", normSpace(o.Clause.Text)) + ") }"
	} else if o.Clause == nil {
		check = "" // safety obligation: a panic reproduces it
	} else {
		return "", "", ""
	}
	lhs := ""
	if len(resNames) > 0 {
		lhs = strings.Join(resNames, ", ") + " := "
	}
	useRes := ""
	for _, r := range resNames {
		useRes += "_ = " + r + "; "
	}
	src := fmt.Sprintf(`package %s

import "testing"

func TestVerifReplay(t *testing.T) {
	defer func() {
		if r := recover(); r != nil {
			t.Fatalf("VERIF-REPRODUCED: panic: %%v", r)
		}
	}()
	%s%s(%s)
	%s
	%s
}
`, pkg.Name(), lhs, fn.Name(), strings.Join(args, ", "), useRes, check)
	out, reproduced := runOverlayTest(e.repoDir, pkg.Path(), e.modulePath, pkg.Name(), src, outDir, sanitize(o.Name))
	if reproduced {
		return "reproduced", src, out
	}
	return "not-reproduced", src, out
}

// runOverlayTest injects src as an extra _test.go file of the package via -overlay.
func runOverlayTest(repoDir, pkgPath, modulePath, pkgName, src, outDir, tag string) (string, bool) {
	rel := strings.TrimPrefix(strings.TrimPrefix(pkgPath, modulePath), "/")
	dir := filepath.Join(repoDir, rel)
	testFile := filepath.Join(outDir, tag+"_replay_test.go")
	os.WriteFile(testFile, []byte(src), 0o644)
	ov := map[string]map[string]string{"Replace": {filepath.Join(dir, "zz_verif_replay_test.go"): testFile}}
	ovData, _ := json.Marshal(ov)
	ovFile := filepath.Join(outDir, tag+"_overlay.json")
	os.WriteFile(ovFile, ovData, 0o644)
	cmd := exec.Command("go", "test", "-overlay", ovFile, "-vet=off", "-count=1", "-timeout", "60s", "-run", "^TestVerifReplay$", ".")
	cmd.Dir = dir
	cmd.Env = append(os.Environ(), "GOFLAGS=-mod=mod", "GOPROXY=off")
	out, _ := cmd.CombinedOutput()
	return firstLines(string(out), 60), strings.Contains(string(out), "VERIF-REPRODUCED")
}

func cmdReplay(args []string) int {
	if len(args) < 1 {
		fmt.Fprintln(os.Stderr, "usage: govc replay <replay.json>")
		return 2
	}
	var rep map[string]interface{}
	if err := readJSON(args[0], &rep); err != nil {
		fmt.Fprintln(os.Stderr, err)
		return 2
	}
	fmt.Printf("obligation: %v\nproperty: %v\nreason: %v\nverdict: %v\n", rep["obligation"], rep["property"], rep["reason"], rep["verdict"])
	src, _ := rep["go_test"].(string)
	if src == "" {
		fmt.Println("no Go test attached (no-failing-input-found); solver output:")
		fmt.Println(rep["solver_output"])
		return 1
	}
	// find the package from the "package x" line + position
	pos, _ := rep["position"].(string)
	dir := filepath.Dir(strings.SplitN(pos, ":", 2)[0])
	if dir == "" || dir == "." {
		fmt.Println("cannot locate package directory")
		return 1
	}
	tmp, _ := os.MkdirTemp("", "verifreplay")
	defer os.RemoveAll(tmp)
	tf := filepath.Join(tmp, "r_test.go")
	os.WriteFile(tf, []byte(src), 0o644)
	ov, _ := json.Marshal(map[string]map[string]string{"Replace": {filepath.Join(dir, "zz_verif_replay_test.go"): tf}})
	of := filepath.Join(tmp, "ov.json")
	os.WriteFile(of, ov, 0o644)
	cmd := exec.Command("go", "test", "-overlay", of, "-vet=off", "-count=1", "-timeout", "60s", "-run", "^TestVerifReplay$", ".")
	cmd.Dir = dir
	cmd.Env = append(os.Environ(), "GOFLAGS=-mod=mod", "GOPROXY=off")
	out, _ := cmd.CombinedOutput()
	fmt.Println(string(out))
	if strings.Contains(string(out), "VERIF-REPRODUCED") {
		return 1
	}
	return 0
}
