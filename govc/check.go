package main

// Property-level orchestration: function sets, ledger, known findings,
// evidence files, VIOLATION lines (DESIGN.md §3.11, §3.15, §3.16, §10).

import (
	"encoding/json"
	"fmt"
	"os"
	"os/exec"
	"path/filepath"
	"sort"
	"strconv"
	"strings"
	"time"
)

type PropCfg struct {
	Packages    []string `json:"packages"`
	Functions   []string `json:"functions"`
	Level       string   `json:"level"`
	Composition string   `json:"composition"`
	Assumptions []string `json:"assumptions"`
	Standins    []struct {
		Name  string   `json:"name"`
		Cmd   []string `json:"cmd"`
		Bound string   `json:"bound"`
	} `json:"standins"`
	Lemmas []string `json:"lemmas"`
	// NoClosure switches the dependency closure off (callee contracts are then assumptions of this check)
	NoClosure bool `json:"no_closure"`
}

type KnownFinding struct {
	Property   string `json:"property"`
	Obligation string `json:"obligation"`
	Signature  string `json:"signature"`
	Replay     string `json:"replay_template"`
	WhatFails  string `json:"what_fails"`
	Status     string `json:"status"`
}

type Ledger struct {
	Property    string   `json:"property"`
	Obligations []string `json:"obligations"` // names of contract-clause obligations that must exist and discharge
	Functions   []string `json:"functions"`
}

type Unproved struct {
	Property   string `json:"property"`
	Obligation string `json:"obligation"`
	Reason     string `json:"reason"`
}

func readJSON(path string, v interface{}) error {
	data, err := os.ReadFile(path)
	if err != nil {
		return err
	}
	return json.Unmarshal(data, v)
}

// verifDir is /verif; VERIF_DIR overrides it for sweeps run from a snapshot of /verif (the seeded-change
// corpus), so that such a run cannot disturb the evidence and scratch files of the registered checks.
var verifDir = envOr("VERIF_DIR", "/verif")

func cmdCheck(args []string) int {
	if len(args) < 1 {
		fmt.Fprintln(os.Stderr, "usage: govc check <property> [quick|thorough] [--write-ledger]")
		return 2
	}
	prop := args[0]
	tier := "quick"
	writeLedger := false
	for _, a := range args[1:] {
		switch a {
		case "quick", "thorough":
			tier = a
		case "--write-ledger":
			writeLedger = true
		}
	}
	if t := os.Getenv("VERIF_TIER"); t == "quick" || t == "thorough" {
		if len(args) < 2 {
			tier = t
		}
	}
	seed, _ := strconv.Atoi(envOr("VERIF_SEED", "0"))
	t0 := time.Now()
	var props map[string]*PropCfg
	if err := readJSON(filepath.Join(verifDir, "contracts/properties.json"), &props); err != nil {
		fmt.Fprintln(os.Stderr, "cannot read properties.json:", err)
		return 2
	}
	pc := props[prop]
	if pc == nil {
		fmt.Fprintln(os.Stderr, "property not configured:", prop)
		return 2
	}
	var known []KnownFinding
	readJSON(filepath.Join(verifDir, "known_findings.json"), &known)
	var unproved []Unproved
	readJSON(filepath.Join(verifDir, "unproved.json"), &unproved)
	var ledger Ledger
	haveLedger := readJSON(filepath.Join(verifDir, "ledger", prop+".json"), &ledger) == nil

	repo := envOr("VERIF_REPO", "/repo")
	e, err := LoadEngine(repo, pc.Packages)
	if err != nil {
		fmt.Fprintln(os.Stderr, "load failed:", err)
		return reportBuildFailure(prop, tier, seed, t0, "cannot load/type-check /repo with -tags verif: "+err.Error())
	}
	if err := e.LoadSpecs(filepath.Join(verifDir, "contracts/external")); err != nil {
		fmt.Fprintln(os.Stderr, "spec error:", err)
		return reportBuildFailure(prop, tier, seed, t0, "contract files do not parse: "+err.Error())
	}
	timeout := 30.0 // quick tier: 30 s per obligation (the slowest discharged obligations need 6-9 s on an idle machine, up to 20 s when another run competes for the cores)
	if tier == "thorough" {
		timeout = 60
	}
	if v := os.Getenv("VERIF_TIMEOUT"); v != "" {
		timeout, _ = strconv.ParseFloat(v, 64)
	}
	e.solver = NewSolverPool(16, filepath.Join(verifDir, ".cache"), filepath.Join(verifDir, "out/tmp"), timeout, seed)
	if tier == "thorough" {
		e.solver.twoSolver = true
	}
	if os.Getenv("VERIF_NOCACHE") != "" {
		e.solver.noCache = true
	}
	for full := range e.db.ConstGlobs {
		if err := e.checkConstGlobal(full); err != nil {
			fmt.Fprintln(os.Stderr, err)
			return reportBuildFailure(prop, tier, seed, t0, err.Error())
		}
	}
	outDir := filepath.Join(verifDir, "out", prop, tier)
	os.RemoveAll(outDir)
	os.MkdirAll(outDir, 0o755)

	var results []*FuncResult
	var fnKeys []string
	frameOnly := map[string]bool{}
	for _, fk := range pc.Functions {
		if strings.HasPrefix(fk, "tagged:") || strings.HasPrefix(fk, "frames:") {
			// every function of the package (suffix match) whose contract has a clause tagged with this property
			// ("frames:": only the frame obligations of those functions are part of this check; their
			// other obligations belong to the checks of the properties their clauses are tagged with)
			isFrames := strings.HasPrefix(fk, "frames:")
			suffix := fk[7:]
			var ks []string
			for key, ct := range e.db.Contracts {
				if ct.Trusted || !strings.HasSuffix(ct.Pkg, suffix) || ct.Flags["inline"] {
					// (inline-flagged contracts are proved where they are inlined, not on their own)
					continue
				}
				for _, cl := range ct.Clauses {
					for _, tg := range cl.Tags {
						if tg == prop || tg == "only:"+prop {
							ks = append(ks, key)
						}
					}
				}
			}
			sort.Strings(ks)
			last := ""
			for _, k := range ks {
				if k != last {
					fnKeys = append(fnKeys, k)
					last = k
					if isFrames {
						frameOnly[k] = true
					}
				}
			}
			continue
		}
		fnKeys = append(fnKeys, fk)
	}
	propOf := map[string]string{} // function key -> property its clauses were selected by ("" = every clause)
	index := map[string]int{}     // function key -> position in results
	support := map[string]bool{}  // functions added by the dependency closure
	framesMode := len(pc.Functions) > 0
	for _, fk := range pc.Functions {
		if !strings.HasPrefix(fk, "frames:") {
			framesMode = false
		}
	}
	for _, fk := range fnKeys {
		keys := e.resolveFuncKeys(fk)
		if len(keys) == 0 {
			results = append(results, &FuncResult{Key: fk, Aborted: "function not found: " + fk})
			continue
		}
		for _, k := range keys {
			if _, dup := index[k]; dup {
				continue
			}
			index[k] = len(results)
			propOf[k] = prop
			results = append(results, e.VerifyFunction(k, prop, true))
		}
	}
	// Dependency closure: a proof that applies a callee's contract at a call site assumes *all* of that
	// contract (every ensures clause and the frame, whatever property they are tagged with). Those
	// clauses are therefore obligations of this check too: every concrete function of the repository
	// whose contract a proof of this check relied on is verified against its whole contract here
	// (transitively), not only in the check of the property its clauses are tagged with.
	if !pc.NoClosure {
		for changed := true; changed; {
			changed = false
			used := map[string]bool{}
			for _, r := range results {
				for u := range r.Used {
					used[u] = true
				}
			}
			for _, u := range sortedKeys(used) {
				ct := e.db.Contracts[u]
				if ct == nil || ct.Trusted || ct.Flags["inline"] || e.funcs[u] == nil {
					continue
				}
				if i, ok := index[u]; ok {
					if propOf[u] != "" && !frameOnly[u] {
						propOf[u] = ""
						results[i] = e.VerifyFunction(u, "", true)
						changed = true
					}
					continue
				}
				index[u] = len(results)
				propOf[u] = ""
				support[u] = true
				if framesMode {
					frameOnly[u] = true
				}
				results = append(results, e.VerifyFunction(u, "", true))
				changed = true
			}
		}
	}
	for _, r := range results {
		if !frameOnly[r.Key] {
			continue
		}
		var keep []*Obligation
		for _, o := range r.Obls {
			// (besides the frames: clauses explicitly tagged with this property, e.g. "the hasher is a fresh object")
			tagged := false
			for _, tg := range o.Tags {
				if tg == prop {
					tagged = true
				}
			}
			// (and the loop invariants: a frame obligation inside or after a loop is proved under the
			// assumed invariant, e.g. "the slice being appended to is fresh", so the invariant's own
			// obligations belong to the frame proof — seeded change C20-8)
			if strings.HasPrefix(o.Kind, "frame") || o.Kind == "nonvacuous" || tagged || o.Kind == "inv-entry" || o.Kind == "inv-preserved" {
				keep = append(keep, o)
			}
		}
		r.Obls = keep
	}
	e.expectUndecided = map[string]bool{}
	for i := range known {
		if !strings.HasPrefix(known[i].Status, "fixed") {
			e.expectUndecided[known[i].Obligation] = true
		}
	}
	for i := range unproved {
		e.expectUndecided[unproved[i].Obligation] = true
	}
	if tier == "quick" {
		e.shortBudget = 6
	}
	e.solveAll(results, false)

	// aggregate
	type agg struct {
		name   string
		status string
		insts  []*Obligation
		worst  *Obligation
		time   float64
		fr     *FuncResult
	}
	aggs := map[string]*agg{}
	var order []string
	for _, r := range results {
		for _, o := range r.Obls {
			a := aggs[o.Name]
			if a == nil {
				a = &agg{name: o.Name, status: "unsat", fr: r}
				aggs[o.Name] = a
				order = append(order, o.Name)
			}
			a.insts = append(a.insts, o)
			a.time += o.Time
			if o.Status != "unsat" && (a.worst == nil || o.Status == "sat") {
				a.status = o.Status
				a.worst = o
			}
		}
	}
	knownBy := map[string]*KnownFinding{}
	// (a finding or an undecided obligation recorded for another property is the same obligation when
	// the dependency closure brings its function into this check: entries of this property win)
	for pass := 0; pass < 2; pass++ {
		for i := range known {
			if (known[i].Property == prop) == (pass == 1) && !strings.HasPrefix(known[i].Status, "fixed") && !strings.HasPrefix(known[i].Obligation, "standin:") {
				knownBy[known[i].Obligation] = &known[i]
			}
		}
	}
	for i := range known {
		if known[i].Property == prop && !strings.HasPrefix(known[i].Status, "fixed") {
			knownBy[known[i].Obligation] = &known[i]
		}
	}
	unprovedBy := map[string]*Unproved{}
	for pass := 0; pass < 2; pass++ {
		for i := range unproved {
			if (unproved[i].Property == prop) == (pass == 1) {
				unprovedBy[unproved[i].Obligation] = &unproved[i]
			}
		}
	}
	violations := 0
	var violLines []string
	discharged, total := 0, 0
	var knownHit, undecidedAllowed []string
	solverBy := map[string]int{}
	var samples []map[string]interface{}
	var clauseNames []string
	addViolation := func(name, reason string, o *Obligation, fr *FuncResult) {
		violations++
		path := filepath.Join(outDir, sanitize(name)+".replay.json")
		rep := map[string]interface{}{"obligation": name, "property": prop, "reason": reason, "verdict": "no-model"}
		suffix := " no-failing-input-found"
		if o != nil {
			rep["description"] = o.Desc
			rep["position"] = o.Pos
			rep["path_blocks"] = o.Path
			rep["solver"] = o.Solver
			rep["solver_status"] = o.Status
			rep["solver_output"] = firstLines(o.Model, 200)
			rep["goal"] = o.Goal
			if o.Clause != nil {
				rep["clause"] = normSpace(o.Clause.Text)
				rep["clause_file"] = fmt.Sprintf("%s:%d", o.Clause.File, o.Clause.Line)
			}
			if fr != nil {
				qf := filepath.Join(outDir, sanitize(name)+".smt2")
				os.WriteFile(qf, []byte(o.Query(fr.Prelude, true)), 0o644)
				rep["query_file"] = qf
			}
			// try to replay a model on the real code
			if o.Status == "sat" && fr != nil {
				if verdict, src, out := e.tryReplay(o, fr, outDir); verdict != "" {
					rep["verdict"] = verdict
					rep["go_test"] = src
					rep["go_test_output"] = out
					if verdict == "reproduced" {
						suffix = ""
					}
				}
			}
		}
		data, _ := json.MarshalIndent(rep, "", " ")
		os.WriteFile(path, data, 0o644)
		violLines = append(violLines, fmt.Sprintf("VIOLATION property=%s replay=%s%s", prop, path, suffix))
		fmt.Printf("  failed obligation: %s (%s)\n", name, reason)
	}
	for _, r := range results {
		if r.Aborted != "" {
			addViolation(r.Key+"#verifiable", "function cannot be verified: "+r.Aborted, nil, nil)
		}
	}
	for _, name := range order {
		a := aggs[name]
		if kf, ok := knownBy[name]; ok {
			if a.status != "unsat" {
				knownHit = append(knownHit, name)
				fmt.Printf("KNOWN-FINDING: property=%s %s [%s]\n", prop, kf.WhatFails, name)
				continue
			}
			// a listed finding that now discharges: count normally
		}
		if _, ok := unprovedBy[name]; ok && a.status != "unsat" && a.status != "sat" {
			undecidedAllowed = append(undecidedAllowed, name)
			continue
		}
		total++
		if a.insts[0].Clause != nil || strings.Contains(name, "#ensures#") {
			clauseNames = append(clauseNames, name)
		}
		if a.status == "unsat" {
			discharged++
			sv := strings.TrimSuffix(a.insts[0].Solver, " (cached)")
			solverBy[sv]++
			if len(samples) < 6 && (a.insts[0].Clause != nil) {
				samples = append(samples, map[string]interface{}{"obligation": name, "what": a.insts[0].Desc, "path_instances": len(a.insts), "smt_bytes": a.insts[0].QueryLen, "solver": a.insts[0].Solver, "time_s": a.time})
			}
			continue
		}
		addViolation(name, "obligation not discharged: "+a.status, a.worst, a.fr)
	}
	// ledger: every ledgered clause obligation must still exist
	if writeLedger {
		sort.Strings(clauseNames)
		var fns []string
		for _, r := range results {
			fns = append(fns, r.Key)
		}
		os.MkdirAll(filepath.Join(verifDir, "ledger"), 0o755)
		data, _ := json.MarshalIndent(Ledger{Property: prop, Obligations: clauseNames, Functions: fns}, "", " ")
		os.WriteFile(filepath.Join(verifDir, "ledger", prop+".json"), data, 0o644)
		fmt.Println("ledger written:", len(clauseNames), "clause obligations")
	} else if haveLedger {
		// every ledgered function must still be under contract for this property (a deleted sweep
		// line or tag would otherwise silently shrink the check)
		have := map[string]bool{}
		for _, r := range results {
			have[r.Key] = true
		}
		for _, fn := range ledger.Functions {
			if !have[fn] {
				addViolation(fn+"#under-contract", "ledgered function is no longer under contract for this property (contract, sweep line or tag removed, or function removed/renamed)", nil, nil)
			}
		}
		// call-site / loop ordinals ("@N") may shift under harmless edits (a reordered or added
		// call): a ledgered clause obligation is present if the same clause still yields an
		// obligation of the same kind in the same function
		stripOrd := func(n string) string {
			if i := strings.LastIndex(n, "@"); i >= 0 && i > strings.LastIndex(n, "#") {
				return n[:i]
			}
			return n
		}
		present := map[string]bool{}
		for n := range aggs {
			present[stripOrd(n)] = true
		}
		for _, name := range ledger.Obligations {
			if _, ok := aggs[name]; !ok && !present[stripOrd(name)] {
				if _, k := knownBy[name]; k {
					continue
				}
				addViolation(name, "ledgered contract obligation is no longer generated (clause or function removed/renamed, or its program point became unreachable)", nil, nil)
			}
		}
	}
	// lemmas (SMT files proved once per run)
	lemmaTotal, lemmaOK := 0, 0
	for _, lf := range pc.Lemmas {
		n, ok, fails := e.runLemmaFile(filepath.Join(verifDir, lf))
		lemmaTotal += n
		lemmaOK += ok
		for _, f := range fails {
			addViolation("lemma:"+lf+"#"+f, "lemma not proved", nil, nil)
		}
	}
	total += lemmaTotal
	discharged += lemmaOK
	// bounded stand-ins
	var bounded []map[string]interface{}
	for _, s := range pc.Standins {
		t1 := time.Now()
		cmd := exec.Command(s.Cmd[0], s.Cmd[1:]...)
		cmd.Dir = verifDir
		cmd.Env = append(os.Environ(), "VERIF_TIER="+tier, fmt.Sprintf("VERIF_SEED=%d", seed), "VERIF_OUT="+outDir, "VERIF_PROP="+prop)
		out, err := cmd.CombinedOutput()
		b := map[string]interface{}{"name": s.Name, "bound": s.Bound, "wall_s": time.Since(t1).Seconds(), "label": "bounded (never counted as proved)"}
		for _, l := range strings.Split(string(out), "\n") {
			if strings.HasPrefix(l, "STANDIN ") {
				var m map[string]interface{}
				if json.Unmarshal([]byte(l[8:]), &m) == nil {
					for k, v := range m {
						b[k] = v
					}
				}
			}
			if strings.HasPrefix(l, "KNOWN-FINDING:") {
				fmt.Println(l)
			}
			if strings.HasPrefix(l, "FINDING ") {
				// "FINDING <class> <failing input>": a listed class is a known finding, any other a violation
				f := strings.SplitN(l, " ", 3)
				name := "standin:" + s.Name + "#" + f[1]
				detail := ""
				if len(f) > 2 {
					detail = f[2]
				}
				if kf, ok := knownBy[name]; ok {
					knownHit = append(knownHit, name)
					fmt.Printf("KNOWN-FINDING: property=%s %s [%s; bounded stand-in, e.g. %s]\n", prop, kf.WhatFails, name, detail)
				} else {
					violations++
					p := filepath.Join(outDir, "standin_"+sanitize(s.Name)+"_"+sanitize(f[1])+".replay.txt")
					os.WriteFile(p, []byte(l+"\n"), 0o644)
					violLines = append(violLines, fmt.Sprintf("VIOLATION property=%s replay=%s", prop, p))
				}
			}
			if strings.HasPrefix(l, "VIOLATION ") {
				violations++
				violLines = append(violLines, l)
			}
		}
		if err != nil && !strings.Contains(string(out), "VIOLATION ") {
			if _, isExit := err.(*exec.ExitError); !isExit || !strings.Contains(string(out), "STANDIN ") {
				violations++
				p := filepath.Join(outDir, "standin_"+sanitize(s.Name)+".log")
				os.WriteFile(p, out, 0o644)
				violLines = append(violLines, fmt.Sprintf("VIOLATION property=%s replay=%s no-failing-input-found", prop, p))
			}
		}
		bounded = append(bounded, b)
	}

	// thorough tier: replay every recorded finding of this property on the real code (an open finding
	// is expected to reproduce; a fixed one must not come back)
	var replays []map[string]interface{}
	if tier == "thorough" {
		done := map[string]bool{}
		for i := range known {
			kf := &known[i]
			if kf.Property != prop || kf.Replay == "" {
				continue
			}
			fixed := strings.HasPrefix(kf.Status, "fixed")
			key := kf.Replay + fmt.Sprint(fixed)
			if done[key] {
				continue
			}
			done[key] = true
			f := strings.Fields(kf.Replay)
			code, out := runTemplate(repo, e.modulePath, filepath.Join(verifDir, f[0]), f[1:])
			r := map[string]interface{}{"template": kf.Replay, "finding_fixed": fixed, "exit": code, "output": firstLines(out, 12)}
			replays = append(replays, r)
			switch {
			case code != 0 && code != 1:
				r["verdict"] = "replay program did not build or run"
				fmt.Printf("NOTE: replay %s did not run (exit %d)\n", kf.Replay, code)
			case fixed && code == 1:
				r["verdict"] = "a fixed finding reproduces again"
				violations++
				p := filepath.Join(outDir, "replay_"+sanitize(f[0])+".log")
				os.WriteFile(p, []byte(out), 0o644)
				violLines = append(violLines, fmt.Sprintf("VIOLATION property=%s replay=%s", prop, filepath.Join(verifDir, f[0])))
			case fixed:
				r["verdict"] = "fixed finding does not reproduce"
			case code == 1:
				r["verdict"] = "open finding reproduces on the real code"
			default:
				r["verdict"] = "open finding does not reproduce with this input"
				fmt.Printf("NOTE: known finding of %s no longer reproduces with %s\n", prop, kf.Replay)
			}
		}
	}

	// evidence
	trusted := map[string]bool{}
	unknownCalls := map[string]int{}
	inlined := map[string]bool{}
	assumed := map[string]bool{}
	axioms := map[string]bool{}
	var fnList []map[string]interface{}
	for _, r := range results {
		for k := range r.Trusted {
			trusted[k] = true
		}
		for k, v := range r.Unknown {
			unknownCalls[k] += v
		}
		for k := range r.Inlined {
			inlined[k] = true
		}
		for k := range r.Assumed {
			assumed[k] = true
		}
		for _, a := range r.Axioms {
			axioms[a] = true
		}
		names := map[string]bool{}
		for _, o := range r.Obls {
			names[o.Name] = true
		}
		role := "in the property's function set (clauses tagged " + prop + " and untagged ones)"
		if propOf[r.Key] == "" {
			role = "whole contract (its contract is applied at a call site of this check)"
		}
		if support[r.Key] {
			role = "support function added by the dependency closure: whole contract"
		}
		if frameOnly[r.Key] {
			role += "; frame obligations only"
		}
		fnList = append(fnList, map[string]interface{}{"function": r.Key, "obligations": len(names), "path_instances": len(r.Obls), "paths": r.Paths + 1, "has_contract": e.db.Contracts[r.Key] != nil, "role": role})
	}
	var tb []string
	tb = append(tb, "go/packages + go/types + go/ssa (x/tools v0.29.0): SSA construction preserves semantics", "govc's own encoding of SSA into SMT-LIB (Int with explicit two's-complement wrapping; floats, strings uninterpreted)", "SMT solvers z3 4.8.12 / z3 5.1.0 / cvc5 1.0.3")
	for _, k := range sortedKeys(trusted) {
		tb = append(tb, "assumed contract: "+k)
	}
	for _, k := range sortedKeysI(unknownCalls) {
		tb = append(tb, "call without contract modelled as arbitrary total function (havoc all memory): "+k)
	}
	for _, k := range sortedKeys(assumed) {
		tb = append(tb, "assumed at call site: "+k)
	}
	for _, k := range sortedKeys(axioms) {
		tb = append(tb, "spec axiom (definition of the oracle / abstract model): "+k)
	}
	for _, k := range sortedKeys(inlined) {
		tb = append(tb, "inlined (verified as part of its caller): "+k)
	}
	assumptions := append([]string{}, pc.Assumptions...)
	if pc.Composition != "" {
		assumptions = append(assumptions, "composition argument (not mechanised): "+pc.Composition)
	}
	if len(samples) == 0 {
		for _, name := range order {
			if len(samples) >= 4 {
				break
			}
			a := aggs[name]
			samples = append(samples, map[string]interface{}{"obligation": name, "what": a.insts[0].Desc, "solver": a.insts[0].Solver, "status": a.status})
		}
	}
	// the slowest single solver calls of this run (cached results carry the time of the original call):
	// an obligation that needs a large share of the per-obligation budget is the one most likely to
	// turn into a spurious "undecided" on a slower machine
	type slowOb struct {
		name string
		t    float64
	}
	var slow []slowOb
	for _, r := range results {
		for _, o := range r.Obls {
			if o.Time >= 2 {
				slow = append(slow, slowOb{o.Name, o.Time})
			}
		}
	}
	sort.Slice(slow, func(i, j int) bool { return slow[i].t > slow[j].t })
	var slowest []map[string]interface{}
	for i, so := range slow {
		if i >= 8 {
			break
		}
		slowest = append(slowest, map[string]interface{}{"obligation": so.name, "time_s": so.t})
	}
	if os.Getenv("VERIF_SHOW_SLOW") != "" {
		for _, so := range slowest {
			fmt.Printf("SLOW %v\n", so)
		}
	}
	solverTimes := map[string]interface{}{}
	e.solver.mu.Lock()
	for k, v := range e.solver.stats {
		solverTimes[k] = map[string]interface{}{"decided": v.Decided, "time_s": v.Time}
	}
	e.solver.mu.Unlock()
	level := pc.Level
	if level == "" {
		level = "proof"
	}
	ev := map[string]interface{}{
		"property_id": prop, "tier": tier, "seed": seed, "level": level,
		"coverage": map[string]interface{}{
			"obligations": total, "discharged": discharged,
			"checker_cmd":                 fmt.Sprintf("/verif/check %s %s  (govc: VCs from go/ssa of %s, -tags verif; portfolio z3-new/cvc5/z3, %.0fs per obligation%s)", prop, tier, repo, timeout, map[bool]string{true: ", two-solver agreement", false: ""}[e.solver.twoSolver]),
			"trusted_base":                tb,
			"functions_under_contract":    fnList,
			"contract_clause_obligations": len(clauseNames),
			"discharged_by_backend":       solverBy,
			"solver_stats_this_run":       solverTimes,
			"slowest_solver_calls":        slowest,
			"per_obligation_budget_s":     timeout,
			"samples":                     samples,
			"known_findings":              knownHit,
			"undecided_allowed":           undecidedAllowed,
			"bounded":                     bounded,
			"finding_replays":             replays,
			"lemmas":                      map[string]int{"total": lemmaTotal, "proved": lemmaOK},
			"integers":                    "Go integers are SMT Int with explicit wrap-around at the type's width (not mathematical); spec integers are mathematical",
			"explanation":                 "every obligation generated from the current source of the listed functions is discharged (negation unsat) by an SMT solver; obligations listed under known_findings/undecided_allowed are excluded from the counts",
		},
		"assumptions": assumptions, "wall_s": time.Since(t0).Seconds(), "violations": violations,
	}
	os.MkdirAll(filepath.Join(verifDir, "evidence"), 0o755)
	data, _ := json.MarshalIndent(ev, "", " ")
	// (VERIF_NO_EVIDENCE: runs on deliberately changed trees — the seeded and harmless corpora — must not
	// overwrite the evidence of the registered checks)
	if os.Getenv("VERIF_NO_EVIDENCE") == "" {
		os.WriteFile(filepath.Join(verifDir, "evidence", prop+".json"), data, 0o644)
	}
	fmt.Printf("property %s (%s): %d/%d obligations discharged, %d known findings, %d undecided-allowed, %d violations, %.1fs\n", prop, tier, discharged, total, len(knownHit), len(undecidedAllowed), violations, time.Since(t0).Seconds())
	for _, l := range violLines {
		fmt.Println(l)
	}
	if violations > 0 || discharged != total {
		return 1
	}
	return 0
}

func sortedKeys(m map[string]bool) []string {
	var out []string
	for k := range m {
		out = append(out, k)
	}
	sort.Strings(out)
	return out
}
func sortedKeysI(m map[string]int) []string {
	var out []string
	for k := range m {
		out = append(out, k)
	}
	sort.Strings(out)
	return out
}

func reportBuildFailure(prop, tier string, seed int, t0 time.Time, msg string) int {
	outDir := filepath.Join(verifDir, "out", prop, tier)
	os.MkdirAll(outDir, 0o755)
	path := filepath.Join(outDir, "load_failure.replay.json")
	data, _ := json.MarshalIndent(map[string]interface{}{"obligation": "load", "property": prop, "reason": msg, "verdict": "no-model"}, "", " ")
	os.WriteFile(path, data, 0o644)
	ev := map[string]interface{}{"property_id": prop, "tier": tier, "seed": seed, "level": "proof",
		"coverage":    map[string]interface{}{"obligations": 1, "discharged": 0, "checker_cmd": "/verif/check " + prop + " " + tier, "trusted_base": []string{}, "explanation": msg, "evaluations": 1, "distinct_nontrivial": 0},
		"assumptions": []string{}, "wall_s": time.Since(t0).Seconds(), "violations": 1}
	os.MkdirAll(filepath.Join(verifDir, "evidence"), 0o755)
	d2, _ := json.MarshalIndent(ev, "", " ")
	if os.Getenv("VERIF_NO_EVIDENCE") == "" {
		os.WriteFile(filepath.Join(verifDir, "evidence", prop+".json"), d2, 0o644)
	}
	fmt.Printf("VIOLATION property=%s replay=%s no-failing-input-found\n", prop, path)
	return 1
}

// runLemmaFile: an SMT-LIB file with several (push)(assert (not lemma))(check-sat)(pop) blocks,
// each preceded by a comment line "; LEMMA name"; every check must answer unsat
// (blocks marked "; EXPECT sat" are reachability canaries and must answer sat).
func (e *Engine) runLemmaFile(path string) (total, ok int, fails []string) {
	data, err := os.ReadFile(path)
	if err != nil {
		return 1, 0, []string{"missing file " + path}
	}
	text := string(data)
	var names []string
	var expects []string
	for _, l := range strings.Split(text, "\n") {
		if strings.HasPrefix(l, "; LEMMA ") {
			names = append(names, strings.TrimSpace(l[8:]))
			expects = append(expects, "unsat")
		}
		if strings.HasPrefix(l, "; EXPECT sat") && len(expects) > 0 {
			expects[len(expects)-1] = "sat"
		}
	}
	run := func(bin string, args ...string) []string {
		cmd := exec.Command(bin, append(args, path)...)
		out, _ := cmd.CombinedOutput()
		var res []string
		for _, l := range strings.Split(string(out), "\n") {
			l = strings.TrimSpace(l)
			if l == "sat" || l == "unsat" || l == "unknown" || l == "timeout" {
				res = append(res, l)
			}
		}
		return res
	}
	r1 := run("z3-new", "-smt2", "-T:30")
	r2 := run("cvc5", "--incremental", "--tlimit=30000")
	for i, n := range names {
		total++
		got1, got2 := "missing", "missing"
		if i < len(r1) {
			got1 = r1[i]
		}
		if i < len(r2) {
			got2 = r2[i]
		}
		if got1 == expects[i] || got2 == expects[i] {
			if (got1 == "sat" && got2 == "unsat") || (got1 == "unsat" && got2 == "sat") {
				fails = append(fails, n+" (solvers disagree)")
				continue
			}
			ok++
		} else {
			fails = append(fails, n+fmt.Sprintf(" (z3: %s, cvc5: %s, want %s)", got1, got2, expects[i]))
		}
	}
	return
}

func cmdLemmas(args []string) int {
	e := &Engine{}
	n, ok, fails := e.runLemmaFile(args[0])
	fmt.Println(n, ok, fails)
	if n != ok {
		return 1
	}
	return 0
}

// runTemplate builds a replay template (a package main) in a scratch module that replaces the
// library with the working tree, runs it with args, and returns (exit code, output). The scratch
// directory is removed afterwards.
func runTemplate(repo, modulePath, tmpl string, args []string) (int, string) {
	src, err := os.ReadFile(tmpl)
	if err != nil {
		return 2, err.Error()
	}
	dir, err := os.MkdirTemp("", "verifreplay")
	if err != nil {
		return 2, err.Error()
	}
	defer os.RemoveAll(dir)
	os.WriteFile(filepath.Join(dir, "main.go"), src, 0o644)
	gomod := "module verifreplay\ngo 1.25.7\nrequire " + modulePath + " v0.0.0\nreplace " + modulePath + " => " + repo + "\n"
	os.WriteFile(filepath.Join(dir, "go.mod"), []byte(gomod), 0o644)
	if sum, err := os.ReadFile(filepath.Join(repo, "go.sum")); err == nil {
		os.WriteFile(filepath.Join(dir, "go.sum"), sum, 0o644)
	}
	env := append(os.Environ(), "GOFLAGS=-mod=mod", "GOPROXY=off")
	buildArgs := []string{"build", "-o", filepath.Join(dir, "replay.bin")}
	if strings.Contains(string(src), "//verif:race") {
		// the template asks for the race detector: a detected race ends the program with status 1
		buildArgs = append(buildArgs, "-race")
		env = append(env, "GORACE=exitcode=1 halt_on_error=1", "CGO_ENABLED=1")
	}
	build := exec.Command("go", append(buildArgs, ".")...)
	build.Dir = dir
	build.Env = env
	if out, err := build.CombinedOutput(); err != nil {
		return 2, string(out)
	}
	cmd := exec.Command("timeout", append([]string{"60", filepath.Join(dir, "replay.bin")}, args...)...)
	cmd.Dir = dir
	cmd.Env = env
	out, err := cmd.CombinedOutput()
	if err == nil {
		return 0, string(out)
	}
	if ee, ok := err.(*exec.ExitError); ok {
		return ee.ExitCode(), string(out)
	}
	return 2, string(out) + err.Error()
}
