package main

import (
	"bytes"
	"context"
	"crypto/sha256"
	"encoding/hex"
	"fmt"
	"os"
	"os/exec"
	"path/filepath"
	"strings"
	"sync"
	"time"
)

type SolverCfg struct {
	Name string
	Cmd  []string // query file appended
	// timeout flag builder
	TimeoutArg func(sec float64) []string
}

type SolverPool struct {
	sem       chan struct{}
	cacheDir  string
	tmpDir    string
	timeout   float64
	seed      int
	cfgs      []SolverCfg
	mu        sync.Mutex
	stats     map[string]*SolverStat
	noCache   bool
	twoSolver bool
	inflight  map[string]*flight
}

type flight struct {
	done chan struct{}
	res  SolveResult
}

type SolverStat struct {
	Decided int
	Time    float64
}

func NewSolverPool(par int, cacheDir, tmpDir string, timeout float64, seed int) *SolverPool {
	os.MkdirAll(cacheDir, 0o755)
	os.MkdirAll(tmpDir, 0o755)
	sp := &SolverPool{sem: make(chan struct{}, par), cacheDir: cacheDir, tmpDir: tmpDir, timeout: timeout, seed: seed, stats: map[string]*SolverStat{}}
	sp.cfgs = []SolverCfg{
		{Name: "z3-5.1.0", Cmd: []string{"z3-new", "-smt2", fmt.Sprintf("smt.random_seed=%d", seed)}, TimeoutArg: func(s float64) []string { return []string{fmt.Sprintf("-T:%d", int(s+0.999))} }},
		{Name: "cvc5-1.0.3", Cmd: []string{"cvc5", "--lang=smt2", fmt.Sprintf("--seed=%d", seed)}, TimeoutArg: func(s float64) []string { return []string{fmt.Sprintf("--tlimit=%d", int(s*1000))} }},
		{Name: "z3-4.8.12", Cmd: []string{"z3", "-smt2", fmt.Sprintf("smt.random_seed=%d", seed)}, TimeoutArg: func(s float64) []string { return []string{fmt.Sprintf("-T:%d", int(s+0.999))} }},
		{Name: "z3-5.1.0-nombqi", Cmd: []string{"z3-new", "-smt2", "smt.mbqi=false", fmt.Sprintf("smt.random_seed=%d", seed)}, TimeoutArg: func(s float64) []string { return []string{fmt.Sprintf("-T:%d", int(s+0.999))} }},
	}
	return sp
}

type SolveResult struct {
	Status string // unsat sat unknown timeout error
	Solver string
	Time   float64
	Output string
	Second string // second solver agreeing (thorough tier)
}

func parseStatus(out string) string {
	for _, l := range strings.Split(out, "\n") {
		l = strings.TrimSpace(l)
		switch l {
		case "unsat", "sat", "unknown", "timeout":
			return l
		}
		if strings.HasPrefix(l, "(error") {
			return "error"
		}
	}
	return "unknown"
}

func (sp *SolverPool) runOne(ctx context.Context, cfg SolverCfg, file string, timeout float64) (string, string, float64) {
	sp.sem <- struct{}{}
	defer func() { <-sp.sem }()
	if ctx.Err() != nil {
		return "cancelled", "", 0
	}
	args := append(append([]string{}, cfg.Cmd[1:]...), cfg.TimeoutArg(timeout)...)
	args = append(args, file)
	cctx, cancel := context.WithTimeout(ctx, time.Duration((timeout+2)*float64(time.Second)))
	defer cancel()
	cmd := exec.CommandContext(cctx, cfg.Cmd[0], args...)
	var buf bytes.Buffer
	cmd.Stdout = &buf
	cmd.Stderr = &buf
	t0 := time.Now()
	cmd.Run()
	dt := time.Since(t0).Seconds()
	out := buf.String()
	if ctx.Err() != nil {
		return "cancelled", out, dt
	}
	if cctx.Err() != nil {
		return "timeout", out, dt
	}
	return parseStatus(out), out, dt
}

// Solve races the solver portfolio on one query.
func (sp *SolverPool) Solve(query string, wantDefinitive bool) (result SolveResult) {
	return sp.SolveT(query, sp.timeout)
}

func (sp *SolverPool) SolveT(query string, timeout float64) (result SolveResult) {
	h := sha256.Sum256([]byte(query))
	key := hex.EncodeToString(h[:16])
	if sp.twoSolver {
		key += "-2s"
	}
	cacheFile := filepath.Join(sp.cacheDir, key)
	if !sp.noCache {
		if data, err := os.ReadFile(cacheFile); err == nil {
			parts := strings.SplitN(string(data), "\n", 4)
			if len(parts) >= 3 {
				var t float64
				fmt.Sscanf(parts[2], "%f", &t)
				r := SolveResult{Status: parts[0], Solver: parts[1] + " (cached)", Time: t}
				if len(parts) == 4 {
					r.Output = parts[3]
				}
				return r
			}
		}
	}
	sp.mu.Lock()
	if sp.inflight == nil {
		sp.inflight = map[string]*flight{}
	}
	if f, ok := sp.inflight[key]; ok {
		sp.mu.Unlock()
		<-f.done
		return f.res
	}
	fl := &flight{done: make(chan struct{})}
	sp.inflight[key] = fl
	sp.mu.Unlock()
	defer func() {
		fl.res = result
		close(fl.done)
	}()
	file := filepath.Join(sp.tmpDir, key+".smt2")
	os.WriteFile(file, []byte(query), 0o644)
	defer os.Remove(file)
	ctx, cancel := context.WithCancel(context.Background())
	defer cancel()
	type res struct {
		cfg    SolverCfg
		status string
		out    string
		dt     float64
	}
	ch := make(chan res, len(sp.cfgs))
	launched := 0
	launch := func(i int) {
		launched++
		cfg := sp.cfgs[i]
		go func() {
			s, o, d := sp.runOne(ctx, cfg, file, timeout)
			ch <- res{cfg, s, o, d}
		}()
	}
	launch(0)
	stagger := time.NewTimer(1200 * time.Millisecond)
	defer stagger.Stop()
	next := 1
	var best SolveResult
	best.Status = "unknown"
	done := 0
	var unsatBy []string
	for done < launched || next < len(sp.cfgs) {
		select {
		case r := <-ch:
			done++
			if r.status == "unsat" || r.status == "sat" {
				if sp.twoSolver && r.status == "unsat" {
					unsatBy = append(unsatBy, r.cfg.Name)
					// need a second, different solver binary
					distinct := map[string]bool{}
					for _, n := range unsatBy {
						distinct[solverBinary(n)] = true
					}
					if len(distinct) < 2 {
						if best.Status != "unsat" {
							best = SolveResult{Status: "unsat1", Solver: r.cfg.Name, Time: r.dt, Output: firstLines(r.out, 40)}
						}
						// make sure the others are launched
						for next < len(sp.cfgs) {
							launch(next)
							next++
						}
						continue
					}
					best = SolveResult{Status: "unsat", Solver: unsatBy[0] + "+" + r.cfg.Name, Second: r.cfg.Name, Time: r.dt, Output: ""}
				} else {
					best = SolveResult{Status: r.status, Solver: r.cfg.Name, Time: r.dt, Output: firstLines(r.out, 400)}
				}
				cancel()
				sp.record(r.cfg.Name, r.dt)
				if !sp.noCache {
					os.WriteFile(cacheFile, []byte(best.Status+"\n"+best.Solver+"\n"+fmt.Sprintf("%f", best.Time)+"\n"+best.Output), 0o644)
				}
				return best
			}
			if r.status == "timeout" && best.Status == "unknown" {
				best.Status = "timeout"
				best.Solver = r.cfg.Name
				best.Time = r.dt
			}
			if r.status == "error" {
				best.Output += r.cfg.Name + ": " + firstLines(r.out, 5) + "\n"
			}
			// an early non-answer: launch the next solver at once
			if next < len(sp.cfgs) {
				launch(next)
				next++
			}
		case <-stagger.C:
			for next < len(sp.cfgs) {
				launch(next)
				next++
			}
		}
	}
	if best.Status == "unsat1" {
		// one solver proved the obligation and no other solver decided it within the budget (none
		// found a counterexample): discharged, recorded as confirmed by one solver only. Only a
		// disagreement (another solver answering sat) is an alarm.
		best.Status = "unsat"
		best.Solver = best.Solver + " (unconfirmed: no second solver decided)"
		best.Output = ""
		if !sp.noCache {
			os.WriteFile(cacheFile, []byte(best.Status+"\n"+best.Solver+"\n"+fmt.Sprintf("%f", best.Time)+"\n"), 0o644)
		}
	}
	return best
}

func (sp *SolverPool) record(name string, dt float64) {
	sp.mu.Lock()
	defer sp.mu.Unlock()
	s := sp.stats[name]
	if s == nil {
		s = &SolverStat{}
		sp.stats[name] = s
	}
	s.Decided++
	s.Time += dt
}

func firstLines(s string, n int) string {
	lines := strings.Split(s, "\n")
	if len(lines) > n {
		lines = lines[:n]
	}
	return strings.Join(lines, "\n")
}

// quickCheck: single fast solver, short timeout (used for path pruning).
func (sp *SolverPool) quickCheck(query string) string {
	h := sha256.Sum256([]byte(query))
	key := hex.EncodeToString(h[:16])
	file := filepath.Join(sp.tmpDir, "p"+key+".smt2")
	os.WriteFile(file, []byte(query), 0o644)
	defer os.Remove(file)
	s, _, _ := sp.runOne(context.Background(), sp.cfgs[0], file, 2)
	return s
}

// solverBinary: "z3-5.1.0-nombqi" and "z3-5.1.0" are the same binary.
func solverBinary(name string) string {
	parts := strings.Split(name, "-")
	if len(parts) >= 2 {
		return parts[0] + "-" + parts[1]
	}
	return name
}
