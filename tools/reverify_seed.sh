#!/bin/sh
# usage: tools/reverify_seed.sh <seed-id> : re-confirm an imported seeded change in a fresh scratch worktree
id=$1; wt=/tmp/reverify_$id
git -C /repo worktree add --detach -q $wt HEAD || exit 1
cp /verif/seeded/$id/patch.diff $wt/patch.diff; mkdir -p $wt/zz_demo; cp /verif/seeded/$id/demo_main.go.txt $wt/zz_demo/main.go
(cd $wt && git apply patch.diff) || { echo "patch does not apply"; git -C /repo worktree remove --force $wt; exit 1; }
/verif/tools/verify_seed.sh $wt $2 2>&1 | tail -6
git -C /repo worktree remove --force $wt
