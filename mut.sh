#!/bin/sh
# usage: mut.sh <file> <sed-expr> <pkgs> <funcs...> : apply a mutation to /repo, verify, revert
f=$1; e=$2; shift 2
cp /repo/$f /tmp/mut_backup.go
sed -i "$e" /repo/$f
if cmp -s /repo/$f /tmp/mut_backup.go; then echo "MUTATION DID NOT APPLY: $e"; fi
(cd /repo && go build ./$(dirname $f) 2>&1 | head -3)
/verif/bin/govc verify "$@" 2>&1 | grep -E "FAIL|discharged|ABORT" | cut -c1-220
cp /tmp/mut_backup.go /repo/$f
