#!/bin/sh
# usage: tools/import_seed.sh <seed-id> <worktree> : copy patch+demo of a seeding sub-agent into seeded/<id>, remove the worktree, run the check
id=$1; wt=$2
cd /verif
mkdir -p seeded/$id && cp $wt/patch.diff seeded/$id/patch.diff && cp $wt/zz_demo/main.go seeded/$id/demo_main.go.txt || exit 1
git -C /repo worktree remove --force $wt; git -C /repo worktree prune
tools/run_seeded.sh $id
