package main

// SMT-side vocabulary: sorts, the per-verification registry of lazily declared
// datatypes / constants, and the fixed prelude (DESIGN.md §3.3, §3.4).

import (
	"crypto/sha256"
	"encoding/hex"
	"fmt"
	"go/constant"
	"go/types"
	"math/big"
	"sort"
	"strings"
)

type T struct {
	S      string     // SMT term text
	So     string     // SMT sort
	Ty     types.Type // Go type when known (nil for ghost sorts)
	Fresh  bool       // address known to be allocated by the function under verification
	NonNil bool       // address syntactically not nil (field/element/global address)
	Dyn    types.Type // for interface values: dynamic type when syntactically known
	Tup    []T        // tuple components
	Clo    *cloInfo   // closure created on this path
}

func shortHash(s string) string {
	h := sha256.Sum256([]byte(s))
	return hex.EncodeToString(h[:6])
}

const basePrelude = `(set-logic ALL)
(declare-sort Str 0)
(declare-sort F64 0)
(declare-datatypes ((Addr 0)) (((base (bid Int)) (fld (fpar Addr) (fidx Int)) (elem (epar Addr) (eidx Int)))))
(define-fun nil () Addr (base 0))
(declare-datatypes ((Slice 0)) (((mk_slice (sarr Addr) (soff Int) (slen Int) (scap Int)))))
(declare-datatypes ((Iface 0)) (((mk_iface (itag Int) (ipay Addr)))))
(declare-datatypes ((Func 0)) (((mk_func (fid Int) (fenv Addr)))))
(define-fun nil_slice () Slice (mk_slice nil 0 0 0))
(define-fun nil_iface () Iface (mk_iface 0 nil))
(define-fun nil_func () Func (mk_func 0 nil))
(declare-fun root (Addr) Int)
(assert (forall ((k Int)) (! (= (root (base k)) k) :pattern ((base k)))))
(assert (forall ((p Addr) (i Int)) (! (= (root (fld p i)) (root p)) :pattern ((fld p i)))))
(assert (forall ((p Addr) (i Int)) (! (= (root (elem p i)) (root p)) :pattern ((elem p i)))))
(declare-fun atype (Addr) Int)
(declare-fun ix (Int Int) Int)
(assert (forall ((o Int) (i Int)) (! (= (ix o i) (+ o i)) :pattern ((ix o i)))))
(declare-fun slen_ (Str) Int)
(declare-fun sat_ (Str Int) Int)
(declare-fun slt_ (Str Str) Bool)
(declare-fun sconcat_ (Str Str) Str)
(declare-fun ssub_ (Str Int Int) Str)
(declare-const str_empty Str)
(assert (= (slen_ str_empty) 0))
(assert (forall ((s Str)) (! (and (>= (slen_ s) 0) (<= (slen_ s) 140737488355328)) :pattern ((slen_ s)))))
(assert (forall ((s Str)) (! (=> (= (slen_ s) 0) (= s str_empty)) :pattern ((slen_ s)))))
(assert (forall ((s Str) (i Int)) (! (and (<= 0 (sat_ s i)) (<= (sat_ s i) 255)) :pattern ((sat_ s i)))))
(assert (forall ((a Str) (b Str)) (! (= (slen_ (sconcat_ a b)) (+ (slen_ a) (slen_ b))) :pattern ((sconcat_ a b)))))
(declare-fun f64_lt (F64 F64) Bool)
(declare-fun f64_eq (F64 F64) Bool)
(declare-fun f64_add (F64 F64) F64)
(declare-fun f64_sub (F64 F64) F64)
(declare-fun f64_mul (F64 F64) F64)
(declare-fun f64_div (F64 F64) F64)
(declare-fun f64_neg (F64) F64)
(declare-fun f64_of_int (Int) F64)
(declare-fun int_of_f64 (F64) Int)
(declare-fun f64_lit (Int) F64)
(declare-fun bits_and (Int Int) Int)
(declare-fun bits_or (Int Int) Int)
(declare-fun bits_xor (Int Int) Int)
(declare-fun bits_shl (Int Int) Int)
(declare-fun bits_shr (Int Int) Int)
(declare-fun iface_eq (Iface Iface) Bool)
(assert (forall ((a Iface)) (! (iface_eq a a) :pattern ((iface_eq a a)))))
(declare-fun implements_ (Int Int) Bool)
(declare-fun tag_is_ptr (Int) Bool)
(define-fun wrapu ((x Int) (m Int)) Int (mod x m))
(define-fun wraps ((x Int) (m Int) (h Int)) Int (- (mod (+ x h) m) h))
(define-fun tdiv ((x Int) (y Int)) Int (ite (>= x 0) (ite (> y 0) (div x y) (- (div x (- y)))) (ite (> y 0) (- (div (- x) y)) (div (- x) (- y)))))
(define-fun tmod ((x Int) (y Int)) Int (- x (* y (tdiv x y))))
`

// leaf memory sorts
var leafSorts = []string{"Int", "Bool", "Str", "F64", "Addr", "Slice", "Iface", "Func"}

type structInfo struct {
	name   string
	st     *types.Struct
	typ    types.Type
	fields []string // sorts
}

type Registry struct {
	structs     []*structInfo
	structByKey map[string]*structInfo
	tags        map[string]int // type string -> tag
	tagTypes    []types.Type
	strLits     map[string]string // literal -> const name
	strOrder    []string
	globals     map[string]int // full name -> index
	globOrder   []string
	mapMems     map[string]bool // declared map memory names -> sort decl emitted in state init
	decls       []string        // extra declarations (pure funcs etc.)
	declSeen    map[string]bool
	ifaceIDs    map[string]int
	funcIDs     map[string]int
	arrSorts    map[string]bool
	typeIDs     map[string]int
	arrElems    []types.Type
	arrSeen     map[string]bool
}

// TypeID: identity of the Go type of a memory object/cell (by underlying type), used to rule out
// aliasing between pointers of different pointee types.
func (r *Registry) TypeID(t types.Type) int {
	k := types.TypeString(t.Underlying(), nil)
	if arr, ok := t.Underlying().(*types.Array); ok {
		return r.ArrID(arr.Elem())
	}
	if v, ok := r.typeIDs[k]; ok {
		return v
	}
	v := len(r.typeIDs) + 1
	r.typeIDs[k] = v
	return v
}

// ArrID: type id of "array of elem" objects (any length).
func (r *Registry) ArrID(elem types.Type) int {
	k := "[]" + types.TypeString(elem.Underlying(), nil)
	if v, ok := r.typeIDs[k]; ok {
		return v
	}
	v := len(r.typeIDs) + 1
	r.typeIDs[k] = v
	if !r.arrSeen[k] {
		r.arrSeen[k] = true
		r.arrElems = append(r.arrElems, elem)
	}
	return v
}

func NewRegistry() *Registry {
	return &Registry{structByKey: map[string]*structInfo{}, tags: map[string]int{}, strLits: map[string]string{}, globals: map[string]int{},
		mapMems: map[string]bool{}, declSeen: map[string]bool{}, ifaceIDs: map[string]int{}, funcIDs: map[string]int{}, arrSorts: map[string]bool{}, typeIDs: map[string]int{}, arrSeen: map[string]bool{}}
}

func (r *Registry) AddDecl(key, text string) {
	if r.declSeen[key] {
		return
	}
	r.declSeen[key] = true
	r.decls = append(r.decls, text)
}

func (r *Registry) TagOf(t types.Type) int {
	k := types.TypeString(t, nil)
	if v, ok := r.tags[k]; ok {
		return v
	}
	v := len(r.tags) + 1
	r.tags[k] = v
	r.tagTypes = append(r.tagTypes, t)
	return v
}

func (r *Registry) IfaceID(t types.Type) int {
	k := types.TypeString(t, nil)
	if v, ok := r.ifaceIDs[k]; ok {
		return v
	}
	v := len(r.ifaceIDs) + 1
	r.ifaceIDs[k] = v
	return v
}

func (r *Registry) FuncID(name string) int {
	if v, ok := r.funcIDs[name]; ok {
		return v
	}
	v := len(r.funcIDs) + 1
	r.funcIDs[name] = v
	return v
}

func (r *Registry) StrLit(s string) string {
	if s == "" {
		return "str_empty"
	}
	if n, ok := r.strLits[s]; ok {
		return n
	}
	n := fmt.Sprintf("strlit_%d", len(r.strLits))
	r.strLits[s] = n
	r.strOrder = append(r.strOrder, s)
	return n
}

func (r *Registry) Global(full string) string {
	if _, ok := r.globals[full]; !ok {
		r.globals[full] = len(r.globals) + 1
		r.globOrder = append(r.globOrder, full)
	}
	return fmt.Sprintf("(base (- %d))", r.globals[full])
}

// SortOf maps a Go type to an SMT sort, registering struct datatypes on the way.
func (r *Registry) SortOf(t types.Type) string {
	switch u := t.Underlying().(type) {
	case *types.Basic:
		switch {
		case u.Info()&types.IsBoolean != 0:
			return "Bool"
		case u.Info()&types.IsInteger != 0:
			return "Int"
		case u.Info()&types.IsFloat != 0:
			return "F64"
		case u.Info()&types.IsString != 0:
			return "Str"
		case u.Kind() == types.UnsafePointer:
			return "Addr"
		case u.Kind() == types.UntypedNil:
			return "Addr"
		}
		return "Int"
	case *types.Pointer, *types.Map, *types.Chan:
		return "Addr"
	case *types.Slice:
		return "Slice"
	case *types.Interface:
		return "Iface"
	case *types.Signature:
		return "Func"
	case *types.Struct:
		return r.structSort(t, u)
	case *types.Array:
		es := r.SortOf(u.Elem())
		return "(Array Int " + es + ")"
	case *types.Tuple:
		return "Tuple"
	}
	return "Int"
}

func (r *Registry) structSort(t types.Type, st *types.Struct) string {
	key := types.TypeString(t.Underlying(), nil)
	if named, ok := t.(*types.Named); ok {
		key = types.TypeString(named, nil)
	}
	if si, ok := r.structByKey[key]; ok {
		return si.name
	}
	si := &structInfo{st: st, typ: t}
	for i := 0; i < st.NumFields(); i++ {
		si.fields = append(si.fields, r.SortOf(st.Field(i).Type()))
	}
	si.name = fmt.Sprintf("S%d", len(r.structs))
	if named, ok := t.(*types.Named); ok {
		si.name += "_" + sanitize(named.Obj().Name())
	}
	r.structs = append(r.structs, si)
	r.structByKey[key] = si
	return si.name
}

func (r *Registry) structInfoOf(t types.Type) *structInfo {
	r.SortOf(t)
	key := types.TypeString(t.Underlying(), nil)
	if named, ok := t.(*types.Named); ok {
		key = types.TypeString(named, nil)
	}
	return r.structByKey[key]
}

func sanitize(s string) string {
	var sb strings.Builder
	for _, c := range s {
		if (c >= 'a' && c <= 'z') || (c >= 'A' && c <= 'Z') || (c >= '0' && c <= '9') || c == '_' {
			sb.WriteRune(c)
		} else {
			sb.WriteByte('_')
		}
	}
	return sb.String()
}

// Prelude emits everything the registry knows, after the base prelude.
func (r *Registry) Prelude() string {
	var sb strings.Builder
	sb.WriteString(basePrelude)
	for _, si := range r.structs {
		sb.WriteString("(declare-datatypes ((" + si.name + " 0)) (((mk_" + si.name)
		for i, fs := range si.fields {
			fmt.Fprintf(&sb, " (%s_f%d %s)", si.name, i, fs)
		}
		if len(si.fields) == 0 {
			fmt.Fprintf(&sb, " (%s_dummy Int)", si.name)
		}
		sb.WriteString("))))\n")
	}
	// typed-heap axioms: the type of a field / element cell follows from the type of its parent
	for i := 0; i < len(r.structs); i++ {
		si := r.structs[i]
		if si.typ == nil {
			continue
		}
		sid := r.TypeID(si.typ)
		for j := 0; j < si.st.NumFields(); j++ {
			fmt.Fprintf(&sb, "(assert (forall ((p Addr)) (! (=> (= (atype p) %d) (= (atype (fld p %d)) %d)) :pattern ((fld p %d)))))\n", sid, j, r.TypeID(si.st.Field(j).Type()), j)
		}
	}
	for i := 0; i < len(r.arrElems); i++ {
		e := r.arrElems[i]
		fmt.Fprintf(&sb, "(assert (forall ((p Addr) (i Int)) (! (=> (= (atype p) %d) (= (atype (elem p i)) %d)) :pattern ((elem p i)))))\n", r.ArrID(e), r.TypeID(e))
	}
	for i, s := range r.strOrder {
		name := fmt.Sprintf("strlit_%d", i)
		fmt.Fprintf(&sb, "(declare-const %s Str)\n(assert (= (slen_ %s) %d))\n", name, name, len(s))
		if len(s) <= 24 {
			for j := 0; j < len(s); j++ {
				fmt.Fprintf(&sb, "(assert (= (sat_ %s %d) %d))\n", name, j, s[j])
			}
		}
	}
	if len(r.strOrder) > 1 {
		sb.WriteString("(assert (distinct")
		for i := range r.strOrder {
			fmt.Fprintf(&sb, " strlit_%d", i)
		}
		sb.WriteString("))\n")
	}
	// tag facts
	type kv struct {
		k string
		v int
	}
	var tl []kv
	for k, v := range r.tags {
		tl = append(tl, kv{k, v})
	}
	sort.Slice(tl, func(i, j int) bool { return tl[i].v < tl[j].v })
	for _, e := range tl {
		t := r.tagTypes[e.v-1]
		_, isPtr := t.Underlying().(*types.Pointer)
		if isPtr {
			fmt.Fprintf(&sb, "(assert (tag_is_ptr %d))\n", e.v)
		} else {
			fmt.Fprintf(&sb, "(assert (not (tag_is_ptr %d)))\n", e.v)
		}
	}
	for _, d := range r.decls {
		sb.WriteString(d)
		sb.WriteString("\n")
	}
	return sb.String()
}

// ImplementsFacts emits implements_(tag, ifaceID) ground facts for all registered pairs.
func (r *Registry) ImplementsFacts(ifaces map[string]types.Type) string {
	var sb strings.Builder
	var names []string
	for k := range ifaces {
		names = append(names, k)
	}
	sort.Strings(names)
	for _, k := range names {
		it := ifaces[k]
		iu, ok := it.Underlying().(*types.Interface)
		if !ok {
			continue
		}
		id := r.ifaceIDs[k]
		for i, t := range r.tagTypes {
			if types.Implements(t, iu) {
				fmt.Fprintf(&sb, "(assert (implements_ %d %d))\n", i+1, id)
			} else {
				fmt.Fprintf(&sb, "(assert (not (implements_ %d %d)))\n", i+1, id)
			}
		}
	}
	return sb.String()
}

// ---------- integer helpers ----------

type intInfo struct {
	bits   int
	signed bool
}

func intInfoOf(t types.Type) (intInfo, bool) {
	b, ok := t.Underlying().(*types.Basic)
	if !ok || b.Info()&types.IsInteger == 0 {
		return intInfo{}, false
	}
	switch b.Kind() {
	case types.Int, types.Int64, types.UntypedInt, types.UntypedRune:
		return intInfo{64, true}, true
	case types.Int8:
		return intInfo{8, true}, true
	case types.Int16:
		return intInfo{16, true}, true
	case types.Int32:
		return intInfo{32, true}, true
	case types.Uint, types.Uint64, types.Uintptr:
		return intInfo{64, false}, true
	case types.Uint8:
		return intInfo{8, false}, true
	case types.Uint16:
		return intInfo{16, false}, true
	case types.Uint32:
		return intInfo{32, false}, true
	}
	return intInfo{64, true}, true
}

func pow2(n int) string {
	return new(big.Int).Lsh(big.NewInt(1), uint(n)).String()
}

func (ii intInfo) min() string {
	if !ii.signed {
		return "0"
	}
	return "(- " + pow2(ii.bits-1) + ")"
}
func (ii intInfo) max() string {
	if !ii.signed {
		return new(big.Int).Sub(new(big.Int).Lsh(big.NewInt(1), uint(ii.bits)), big.NewInt(1)).String()
	}
	return new(big.Int).Sub(new(big.Int).Lsh(big.NewInt(1), uint(ii.bits-1)), big.NewInt(1)).String()
}
func (ii intInfo) rangeFact(x string) string {
	return "(and (<= " + ii.min() + " " + x + ") (<= " + x + " " + ii.max() + "))"
}
func (ii intInfo) wrap(x string) string {
	if ii.signed {
		return "(wraps " + x + " " + pow2(ii.bits) + " " + pow2(ii.bits-1) + ")"
	}
	return "(wrapu " + x + " " + pow2(ii.bits) + ")"
}

func smtInt(v *big.Int) string {
	if v.Sign() < 0 {
		return "(- " + new(big.Int).Neg(v).String() + ")"
	}
	return v.String()
}

func constIntString(c constant.Value) string {
	if c == nil {
		return "0"
	}
	if c.Kind() == constant.Int {
		if v, ok := constant.Val(c).(*big.Int); ok {
			return smtInt(v)
		}
		if v, ok := constant.Val(c).(int64); ok {
			return smtInt(big.NewInt(v))
		}
	}
	if c.Kind() == constant.Float {
		// integer-valued float constant converted to int type
		if i := constant.ToInt(c); i.Kind() == constant.Int {
			return constIntString(i)
		}
	}
	return "0"
}

func and(xs ...string) string {
	var ys []string
	for _, x := range xs {
		if x == "true" || x == "" {
			continue
		}
		ys = append(ys, x)
	}
	if len(ys) == 0 {
		return "true"
	}
	if len(ys) == 1 {
		return ys[0]
	}
	return "(and " + strings.Join(ys, " ") + ")"
}
func or(xs ...string) string {
	var ys []string
	for _, x := range xs {
		if x == "false" || x == "" {
			continue
		}
		ys = append(ys, x)
	}
	if len(ys) == 0 {
		return "false"
	}
	if len(ys) == 1 {
		return ys[0]
	}
	return "(or " + strings.Join(ys, " ") + ")"
}
func not(x string) string {
	if x == "true" {
		return "false"
	}
	if x == "false" {
		return "true"
	}
	return "(not " + x + ")"
}
func implies(a, b string) string {
	if a == "true" {
		return b
	}
	return "(=> " + a + " " + b + ")"
}
