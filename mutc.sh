#!/bin/sh
# usage: mutc.sh <file> <sed-expr> <prop>... : apply mutation, run property checks, revert
f=$1; e=$2; shift 2
cp /repo/$f /tmp/mutc_backup.go
sed -i "$e" /repo/$f
if cmp -s /repo/$f /tmp/mutc_backup.go; then echo "MUTATION DID NOT APPLY: $e"; fi
(cd /repo && go build ./$(dirname $f) 2>&1 | head -3)
for p in "$@"; do /verif/check $p quick 2>&1 | grep -E "^property|VIOLATION|KNOWN" | cut -c1-250; done
cp /tmp/mutc_backup.go /repo/$f
