#!/bin/sh
# usage: tools/run_harmless.sh [id...] : apply each behaviour-preserving edit to /repo, run every registered quick
# check whose packages the patch touches (all checks if "all" is given as first arg), revert. Any VIOLATION is a false alarm.
cd /verif
ALL=0; if [ "$1" = "all" ]; then ALL=1; shift; fi
ids="$@"; [ -z "$ids" ] && ids=$(ls harmless)
props=$(python3 -c "import json;print(' '.join(c['property_id'] for c in json.load(open('MANIFEST.json'))['checks']))")
for id in $ids; do
  if [ -n "$(git -C /repo status --porcelain)" ]; then echo "REFUSING: /repo has uncommitted changes"; exit 1; fi
  if ! git -C /repo apply --check /verif/harmless/$id/patch.diff 2>/dev/null; then echo "$id: PATCH DOES NOT APPLY"; continue; fi
  git -C /repo apply /verif/harmless/$id/patch.diff
  bad=""
  for p in $props; do
    out=$(VERIF_NO_EVIDENCE=1 ./check $p quick 2>&1)
    if echo "$out" | grep -q "^VIOLATION"; then bad="$bad $p"; echo "$out" | grep "failed obligation" | head -3 | sed "s/^/    [$id $p] /" | cut -c1-260; fi
  done
  git -C /repo apply -R /verif/harmless/$id/patch.diff
  echo "$id: $( [ -z "$bad" ] && echo "no alarm" || echo "FALSE ALARM in:$bad" )"
done
