; Ghost-filesystem lemma for C18 (DESIGN.md §4.5, §5 C18, Appendix B.6).
; State: kind : Path -> {absent, dir, file}; open : Path -> Bool (a writer still holds it);
; whole : Path -> Bool (the content is the complete content its writer intended: set by close).
; Invariant I(fs): every regular file outside the staging directory is whole and not open.
; Each LEMMA shows that one permitted step (exactly the steps that the call-site obligations
; generated for storage/fsstore allow) preserves I from an arbitrary state satisfying I; the
; EXPECT sat blocks are canaries showing that the forbidden steps do break I (non-vacuity).
(set-logic ALL)
(declare-sort Path 0)
(declare-datatypes ((Kind 0)) (((absent) (dir) (file))))
(declare-fun instaging (Path) Bool)
(declare-fun kind (Path) Kind)
(declare-fun open (Path) Bool)
(declare-fun whole (Path) Bool)
(declare-fun kind2 (Path) Kind)
(declare-fun open2 (Path) Bool)
(declare-fun whole2 (Path) Bool)
(declare-const s Path)
(declare-const d Path)
(define-fun I1 () Bool (forall ((p Path)) (=> (and (= (kind p) file) (not (instaging p))) (and (whole p) (not (open p))))))
(define-fun I2 () Bool (forall ((p Path)) (=> (and (= (kind2 p) file) (not (instaging p))) (and (whole2 p) (not (open2 p))))))
(define-fun frame_except ((x Path)) Bool (forall ((p Path)) (=> (not (= p x)) (and (= (kind2 p) (kind p)) (= (open2 p) (open p)) (= (whole2 p) (whole p))))))
(define-fun frame_except2 ((x Path) (y Path)) Bool (forall ((p Path)) (=> (and (not (= p x)) (not (= p y))) (and (= (kind2 p) (kind p)) (= (open2 p) (open p)) (= (whole2 p) (whole p))))))
(assert I1)
(push)
; LEMMA create_excl_in_staging
(assert (instaging s))
(assert (= (kind s) absent))
(assert (and (= (kind2 s) file) (open2 s) (not (whole2 s))))
(assert (frame_except s))
(assert (not I2))
(check-sat)
(pop)

(push)
; LEMMA write_own_open_staging_file
(assert (instaging s))
(assert (and (= (kind s) file) (open s)))
(assert (and (= (kind2 s) file) (open2 s) (not (whole2 s))))
(assert (frame_except s))
(assert (not I2))
(check-sat)
(pop)

(push)
; LEMMA close_staging_file
(assert (instaging s))
(assert (= (kind s) file))
(assert (and (= (kind2 s) file) (not (open2 s)) (whole2 s)))
(assert (frame_except s))
(assert (not I2))
(check-sat)
(pop)

(push)
; LEMMA rename_closed_staging_file_to_destination
(assert (instaging s))
(assert (not (instaging d)))
(assert (and (= (kind s) file) (not (open s)) (whole s)))
(assert (and (= (kind2 s) absent) (= (kind2 d) file) (= (open2 d) (open s)) (= (whole2 d) (whole s))))
(assert (frame_except2 s d))
(assert (not I2))
(check-sat)
(pop)

(push)
; LEMMA failed_rename_changes_nothing
(assert (forall ((p Path)) (and (= (kind2 p) (kind p)) (= (open2 p) (open p)) (= (whole2 p) (whole p)))))
(assert (not I2))
(check-sat)
(pop)

(push)
; LEMMA remove_staging_file
(assert (instaging s))
(assert (= (kind2 s) absent))
(assert (frame_except s))
(assert (not I2))
(check-sat)
(pop)

(push)
; LEMMA mkdir
(assert (not (= (kind d) file)))
(assert (= (kind2 d) dir))
(assert (frame_except d))
(assert (not I2))
(check-sat)
(pop)

(push)
; LEMMA other_writer_steps_on_its_own_staging_file
(assert (instaging s))
(assert (frame_except s))
(assert (not I2))
(check-sat)
(pop)

(push)
; LEMMA CANARY_rename_of_open_staging_file_breaks_I
; EXPECT sat
(assert (instaging s))
(assert (not (instaging d)))
(assert (and (= (kind s) file) (open s)))
(assert (and (= (kind2 s) absent) (= (kind2 d) file) (= (open2 d) (open s)) (= (whole2 d) (whole s))))
(assert (frame_except2 s d))
(assert (not I2))
(check-sat)
(pop)

(push)
; LEMMA CANARY_direct_write_to_destination_breaks_I
; EXPECT sat
(assert (not (instaging d)))
(assert (and (= (kind2 d) file) (open2 d) (not (whole2 d))))
(assert (frame_except d))
(assert (not I2))
(check-sat)
(pop)

(push)
; LEMMA CANARY_create_outside_staging_breaks_I
; EXPECT sat
(assert (not (instaging d)))
(assert (= (kind d) absent))
(assert (and (= (kind2 d) file) (open2 d) (not (whole2 d))))
(assert (frame_except d))
(assert (not I2))
(check-sat)
(pop)
