#!/bin/sh
# usage: tools/run_seeded.sh [id...] : apply each seeded change to /repo, run the check of its property, revert.
cd /verif
ids="$@"; [ -z "$ids" ] && ids=$(ls seeded)
for id in $ids; do
  prop=$(echo $id | cut -d- -f1)
  if ! git -C /repo apply --check /verif/seeded/$id/patch.diff 2>/dev/null; then echo "$id: PATCH DOES NOT APPLY"; continue; fi
  if [ -n "$(git -C /repo status --porcelain)" ]; then echo "REFUSING: /repo has uncommitted changes"; exit 1; fi; git -C /repo apply /verif/seeded/$id/patch.diff
  out=$(VERIF_NO_EVIDENCE=1 ./check $prop quick 2>&1)
  git -C /repo apply -R /verif/seeded/$id/patch.diff
  v=$(echo "$out" | grep -c "^VIOLATION")
  echo "$id: $(echo "$out" | grep '^property' | cut -c1-120) -> $( [ $v -gt 0 ] && echo DETECTED || echo MISSED )"
  echo "$out" | grep "^VIOLATION" | sed 's/.*quick\//    /' | cut -c1-160 | head -4
done
