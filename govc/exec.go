package main

// Symbolic execution of go/ssa function bodies between cut points
// (DESIGN.md §3.7, Appendix A).

import (
	"fmt"
	"go/constant"
	"go/token"
	"go/types"
	"strings"

	"golang.org/x/tools/go/ssa"
)

type cloInfo struct {
	fn       *ssa.Function
	bindings []T
}

type abortErr struct{ msg string }

func (c *Ctx) abort(format string, a ...interface{}) {
	panic(abortErr{fmt.Sprintf(format, a...)})
}

// ---------- obligations ----------

func (c *Ctx) funcLabel(fr *Frame) string {
	if fr == nil || fr.top {
		return ""
	}
	return "@" + relFuncName(fr.fn)
}

func (c *Ctx) oblige(st *State, fr *Frame, instr ssa.Instruction, kind, desc, goal string, clause *Clause, tags []string) {
	if c.rejectClause != nil && kind != "rejects" {
		// a rejects pass proves one thing only: no normal return from the misuse state
		return
	}
	trivial := false
	if goal == "true" {
		// trivially true obligations are skipped, except frame obligations: "this call/store is
		// inside the frame" is kept (discharged by construction) so that a frame proof is never an
		// empty set of obligations
		if kind != "frame" {
			return
		}
		trivial = true
	}
	o := &Obligation{Func: c.fnKey(), Kind: kind + c.funcLabel(fr), Desc: desc, Goal: goal, Lines: st.lines.collect(), Clause: clause, Tags: tags}
	if instr != nil {
		o.Pos = c.eng.prog.Fset.Position(instr.Pos()).String()
		o.Name = fmt.Sprintf("%p", instr) // temporary, ranked later
		c.instrOrd[instr] = c.seqOf(instr)
	}
	o.Path = strings.Join(st.pathDesc, ",")
	if trivial {
		o.Trivial = true
		o.Lines = nil
	}
	c.obls = append(c.obls, o)
}

func (c *Ctx) seqOf(instr ssa.Instruction) int {
	b := instr.Block()
	n := b.Index * 10000
	for i, in := range b.Instrs {
		if in == instr {
			return n + i
		}
	}
	return n
}

func (c *Ctx) safetyOblige(st *State, fr *Frame, instr ssa.Instruction, kind, desc, goal string) {
	if !c.safety {
		return
	}
	if fr.contract != nil && fr.contract.Flags["nosafety"] {
		return
	}
	if c.contract != nil && c.contract.Flags["nosafety"] {
		// the function under verification opted out of the safety sweep: also in code inlined into it
		return
	}
	c.oblige(st, fr, instr, kind, desc, goal, nil, nil)
	// after checking, assume (standard: avoid cascading failures)
	st.assume(goal)
}

// ---------- values ----------

func (c *Ctx) frameVarKey(fr *Frame, name string) string { return fmt.Sprintf("%d:%s", fr.id, name) }

func (c *Ctx) valueOf(st *State, fr *Frame, v ssa.Value) T {
	switch x := v.(type) {
	case *ssa.Const:
		return c.constOf(x)
	case *ssa.Global:
		ga := c.reg.Global(x.Pkg.Pkg.Path() + "." + x.Name())
		if pt, ok := x.Type().Underlying().(*types.Pointer); ok && st != nil {
			c.reg.SortOf(pt.Elem())
			c.reg.AddDecl("gtype:"+ga, fmt.Sprintf("(assert (= (atype %s) %d))", ga, c.reg.TypeID(pt.Elem())))
		}
		return T{S: ga, So: "Addr", Ty: x.Type(), NonNil: true}
	case *ssa.Function:
		return T{S: fmt.Sprintf("(mk_func %d nil)", c.reg.FuncID(x.String())), So: "Func", Ty: x.Type(), Clo: &cloInfo{fn: x}}
	case *ssa.Builtin:
		return T{S: "builtin", So: "Builtin"}
	}
	if t, ok := fr.regs[v]; ok {
		return t
	}
	c.abort("value %s (%T) not bound in %s", v.Name(), v, fr.fn)
	return T{}
}

func (c *Ctx) constOf(x *ssa.Const) T {
	t := x.Type()
	so := c.reg.SortOf(t)
	if x.Value == nil {
		return T{S: c.zero(t), So: so, Ty: t}
	}
	switch so {
	case "Int":
		return T{S: constIntString(x.Value), So: so, Ty: t}
	case "Bool":
		if constant.BoolVal(x.Value) {
			return T{S: "true", So: so, Ty: t}
		}
		return T{S: "false", So: so, Ty: t}
	case "Str":
		return T{S: c.reg.StrLit(constant.StringVal(x.Value)), So: so, Ty: t}
	case "F64":
		key := x.Value.ExactString()
		n := "f64c_" + sanitize(key)
		c.reg.AddDecl("f64c:"+key, "(declare-const "+n+" F64)")
		return T{S: n, So: so, Ty: t}
	}
	return T{S: c.zero(t), So: so, Ty: t}
}

func (c *Ctx) bind(st *State, fr *Frame, v ssa.Value, t T) {
	if t.Ty == nil {
		t.Ty = v.Type()
	}
	fr.regs[v] = t
}

// ---------- running a function ----------

func (c *Ctx) newFrame(fn *ssa.Function, parent *Frame) *Frame {
	c.frameCtr++
	fr := &Frame{id: c.frameCtr, fn: fn, regs: map[ssa.Value]T{}, parent: parent}
	if parent != nil {
		fr.depth = parent.depth + 1
	}
	fr.loops = findLoops(fn)
	return fr
}

func findLoops(fn *ssa.Function) map[*ssa.BasicBlock]*loopInfo {
	loops := map[*ssa.BasicBlock]*loopInfo{}
	for _, b := range fn.Blocks {
		for _, s := range b.Succs {
			if s.Dominates(b) {
				li := loops[s]
				if li == nil {
					li = &loopInfo{header: s, body: map[*ssa.BasicBlock]bool{s: true}}
					loops[s] = li
				}
				// natural loop of back edge b->s
				var work []*ssa.BasicBlock
				if !li.body[b] {
					li.body[b] = true
					work = append(work, b)
				}
				for len(work) > 0 {
					x := work[len(work)-1]
					work = work[:len(work)-1]
					for _, p := range x.Preds {
						if !li.body[p] {
							li.body[p] = true
							work = append(work, p)
						}
					}
				}
			}
		}
	}
	ord := 0
	for _, b := range fn.Blocks {
		if li, ok := loops[b]; ok {
			li.ordinal = ord
			ord++
			for bb := range li.body {
				for _, in := range bb.Instrs {
					switch x := in.(type) {
					case *ssa.Store, *ssa.MapUpdate, *ssa.Defer, *ssa.Go, *ssa.Send:
						li.writes = true
					case *ssa.Call:
						if bi, ok := x.Call.Value.(*ssa.Builtin); ok {
							if bi.Name() == "append" || bi.Name() == "copy" || bi.Name() == "delete" {
								li.writes = true
							}
						} else {
							li.writes = true
						}
					case *ssa.Alloc, *ssa.MakeSlice, *ssa.MakeMap, *ssa.MakeClosure, *ssa.MakeInterface:
						li.writes = true
					}
				}
			}
		}
	}
	return loops
}

func (c *Ctx) execBlock(fr *Frame, b *ssa.BasicBlock, pred *ssa.BasicBlock, st *State) {
	if c.aborted != "" {
		return
	}
	st.pathDesc = append(st.pathDesc, fmt.Sprintf("%d.%d", fr.id, b.Index))
	start := 0
	if li, ok := fr.loops[b]; ok {
		cont := c.loopHeader(fr, li, b, pred, st)
		if !cont {
			return
		}
		// phis were handled by loopHeader
		for start < len(b.Instrs) {
			if _, isPhi := b.Instrs[start].(*ssa.Phi); !isPhi {
				break
			}
			start++
		}
	} else {
		// parallel phi assignment
		var phis []*ssa.Phi
		var vals []T
		for _, in := range b.Instrs {
			phi, ok := in.(*ssa.Phi)
			if !ok {
				break
			}
			start++
			phis = append(phis, phi)
			vals = append(vals, c.phiIncoming(st, fr, phi, b, pred))
		}
		for i, phi := range phis {
			c.bind(st, fr, phi, vals[i])
			if phi.Comment != "" {
				st.vars[c.frameVarKey(fr, phi.Comment)] = varBinding{val: vals[i], ty: phi.Type()}
			}
		}
	}
	for i := start; i < len(b.Instrs); i++ {
		if c.aborted != "" {
			return
		}
		in := b.Instrs[i]
		if done := c.execInstr(fr, b, i, in, st); done {
			return
		}
	}
}

func (c *Ctx) phiIncoming(st *State, fr *Frame, phi *ssa.Phi, b, pred *ssa.BasicBlock) T {
	for i, p := range b.Preds {
		if p == pred {
			v := c.valueOf(st, fr, phi.Edges[i])
			v.Ty = phi.Type()
			return v
		}
	}
	c.abort("phi: no incoming edge")
	return T{}
}

// continueAfter runs the rest of block b starting at instruction index i.
func (c *Ctx) continueAfter(fr *Frame, b *ssa.BasicBlock, i int, st *State) {
	for j := i; j < len(b.Instrs); j++ {
		if c.aborted != "" {
			return
		}
		if done := c.execInstr(fr, b, j, b.Instrs[j], st); done {
			return
		}
	}
}

func (c *Ctx) countPath() bool {
	c.paths++
	if c.paths > c.maxPaths {
		c.aborted = fmt.Sprintf("path limit %d exceeded", c.maxPaths)
		return false
	}
	return true
}

// execInstr executes one instruction; returns true when control has been
// transferred (the rest of the block must not be executed by the caller).
func (c *Ctx) execInstr(fr *Frame, b *ssa.BasicBlock, idx int, in ssa.Instruction, st *State) bool {
	switch x := in.(type) {
	case *ssa.DebugRef:
		if id, ok := x.Expr.(interface{ String() string }); ok {
			_ = id
		}
		if x.Object() != nil {
			if vobj, isVar := x.Object().(*types.Var); isVar && !vobj.IsField() {
				v, ok := fr.regs[x.X]
				if !ok {
					if _, isC := x.X.(*ssa.Const); isC {
						v = c.valueOf(st, fr, x.X)
						ok = true
					} else if _, isG := x.X.(*ssa.Global); isG {
						v = c.valueOf(st, fr, x.X)
						ok = true
					}
				}
				if ok {
					if po, isParam := fr.paramObjs[x.Object().Name()]; isParam && po != x.Object() {
						// a local variable shadowing a parameter of the same name: contracts cannot name it;
						// the name keeps denoting the parameter
						return false
					}
					key := c.frameVarKey(fr, x.Object().Name())
					if old, has := st.vars[key]; has && old.isAddr && !x.IsAddr {
						// address-taken variable: keep the address binding (its value is read from current memory)
					} else {
						st.vars[key] = varBinding{val: v, isAddr: x.IsAddr, ty: x.Object().Type()}
					}
				}
			}
		}
		return false
	case *ssa.Alloc:
		elemT := x.Type().Underlying().(*types.Pointer).Elem()
		var a T
		if nonEscaping(x) {
			// a local whose address never escapes lives in its own (negative-id) object: no pointer
			// in memory can alias it, callees and loop havocs cannot touch it unless listed
			c.counter++
			a = T{S: fmt.Sprintf("(base (- %d))", 100000+c.counter), So: "Addr", Fresh: true, NonNil: true}
			st.assume(fmt.Sprintf("(= (atype %s) %d)", a.S, c.reg.TypeID(elemT)))
			if arr, ok := elemT.Underlying().(*types.Array); ok && arr.Len() > 16 {
				c.zeroArray(st, a.S, arr.Elem())
			} else {
				c.store(st, a.S, elemT, c.zero(elemT))
			}
		} else {
			a = c.alloc(st, elemT, true)
		}
		a.Ty = x.Type()
		c.ghostZero(st, a.S, x.Type())
		c.bind(st, fr, x, a)
		if x.Comment != "" {
			st.vars[c.frameVarKey(fr, x.Comment)] = varBinding{val: a, isAddr: true, ty: elemT}
		}
	case *ssa.FieldAddr:
		p := c.valueOf(st, fr, x.X)
		if !p.Fresh && !p.NonNil {
			c.safetyOblige(st, fr, in, "nil-deref", "field address of nil pointer", "(not (= "+p.S+" nil))")
		}
		c.bind(st, fr, x, T{S: fmt.Sprintf("(fld %s %d)", p.S, x.Field), So: "Addr", Ty: x.Type(), Fresh: p.Fresh, NonNil: true})
	case *ssa.Field:
		s := c.valueOf(st, fr, x.X)
		si := c.reg.structInfoOf(x.X.Type())
		so := c.reg.SortOf(x.Type())
		c.bind(st, fr, x, T{S: c.define(st, "f", so, fmt.Sprintf("(%s_f%d %s)", si.name, x.Field, s.S)), So: so, Ty: x.Type()})
	case *ssa.IndexAddr:
		base := c.valueOf(st, fr, x.X)
		i := c.valueOf(st, fr, x.Index)
		switch u := x.X.Type().Underlying().(type) {
		case *types.Slice:
			c.safetyOblige(st, fr, in, "index", "slice index in range", "(and (<= 0 "+i.S+") (< "+i.S+" (slen "+base.S+")))")
			c.bind(st, fr, x, T{S: c.define(st, "ea", "Addr", fmt.Sprintf("(elem (sarr %s) (ix (soff %s) %s))", base.S, base.S, i.S)), So: "Addr", Ty: x.Type(), Fresh: base.Fresh, NonNil: true})
		case *types.Pointer:
			arr := u.Elem().Underlying().(*types.Array)
			if !base.Fresh && !base.NonNil {
				c.safetyOblige(st, fr, in, "nil-deref", "index of nil array pointer", "(not (= "+base.S+" nil))")
			}
			if _, isConst := x.Index.(*ssa.Const); !isConst {
				c.safetyOblige(st, fr, in, "index", "array index in range", fmt.Sprintf("(and (<= 0 %s) (< %s %d))", i.S, i.S, arr.Len()))
			}
			c.bind(st, fr, x, T{S: fmt.Sprintf("(elem %s %s)", base.S, i.S), So: "Addr", Ty: x.Type(), Fresh: base.Fresh, NonNil: true})
		default:
			c.abort("IndexAddr on %s", x.X.Type())
		}
	case *ssa.Index:
		base := c.valueOf(st, fr, x.X)
		i := c.valueOf(st, fr, x.Index)
		switch u := x.X.Type().Underlying().(type) {
		case *types.Array:
			if _, isConst := x.Index.(*ssa.Const); !isConst {
				c.safetyOblige(st, fr, in, "index", "array index in range", fmt.Sprintf("(and (<= 0 %s) (< %s %d))", i.S, i.S, u.Len()))
			}
			so := c.reg.SortOf(x.Type())
			c.bind(st, fr, x, T{S: c.define(st, "ix", so, fmt.Sprintf("(select %s %s)", base.S, i.S)), So: so, Ty: x.Type()})
		case *types.Basic: // string
			c.safetyOblige(st, fr, in, "index", "string index in range", "(and (<= 0 "+i.S+") (< "+i.S+" (slen_ "+base.S+")))")
			c.bind(st, fr, x, T{S: c.define(st, "ch", "Int", fmt.Sprintf("(sat_ %s %s)", base.S, i.S)), So: "Int", Ty: x.Type()})
		default:
			c.abort("Index on %s", x.X.Type())
		}
	case *ssa.Lookup:
		c.execLookup(st, fr, x)
	case *ssa.UnOp:
		c.execUnOp(st, fr, x)
	case *ssa.Store:
		p := c.valueOf(st, fr, x.Addr)
		v := c.valueOf(st, fr, x.Val)
		if !p.Fresh && !p.NonNil {
			c.safetyOblige(st, fr, in, "nil-deref", "store through nil pointer", "(not (= "+p.S+" nil))")
		}
		if !p.Fresh {
			c.frameCheckStore(st, fr, in, p.S, x.Val.Type())
		}
		c.store(st, p.S, x.Val.Type(), v.S)
	case *ssa.BinOp:
		c.execBinOp(st, fr, x)
	case *ssa.Convert:
		c.execConvert(st, fr, x)
	case *ssa.ChangeType:
		v := c.valueOf(st, fr, x.X)
		v.Ty = x.Type()
		c.bind(st, fr, x, v)
	case *ssa.ChangeInterface:
		v := c.valueOf(st, fr, x.X)
		v.Ty = x.Type()
		c.bind(st, fr, x, v)
	case *ssa.MakeInterface:
		c.execMakeInterface(st, fr, x)
	case *ssa.TypeAssert:
		c.execTypeAssert(st, fr, x)
	case *ssa.Slice:
		c.execSlice(st, fr, x)
	case *ssa.MakeSlice:
		ln := c.valueOf(st, fr, x.Len)
		cp := c.valueOf(st, fr, x.Cap)
		c.safetyOblige(st, fr, in, "make-size", "make([]T, len, cap) size in range", fmt.Sprintf("(and (<= 0 %s) (<= %s %s) (<= %s %s))", ln.S, ln.S, cp.S, cp.S, makeCapLimit(x.Type().Underlying().(*types.Slice).Elem())))
		elemT := x.Type().Underlying().(*types.Slice).Elem()
		arr := c.allocArray(st, elemT, cp.S)
		so := "Slice"
		c.bind(st, fr, x, T{S: c.define(st, "sl", so, fmt.Sprintf("(mk_slice %s 0 %s %s)", arr, ln.S, cp.S)), So: so, Ty: x.Type(), Fresh: true})
	case *ssa.MakeMap:
		if x.Reserve != nil {
			r := c.valueOf(st, fr, x.Reserve)
			_ = r // negative hints are ignored by the runtime for make(map) (treated as 0)
		}
		c.bind(st, fr, x, c.makeMap(st, x.Type()))
	case *ssa.MapUpdate:
		c.execMapUpdate(st, fr, x)
	case *ssa.MakeClosure:
		fn := x.Fn.(*ssa.Function)
		var bs []T
		for _, bv := range x.Bindings {
			bs = append(bs, c.valueOf(st, fr, bv))
		}
		env := c.alloc(st, types.NewStruct(nil, nil), false)
		c.bind(st, fr, x, T{S: fmt.Sprintf("(mk_func %d %s)", c.reg.FuncID(fn.String()), env.S), So: "Func", Ty: x.Type(), Clo: &cloInfo{fn: fn, bindings: bs}})
	case *ssa.Extract:
		tup := c.valueOf(st, fr, x.Tuple)
		if x.Index >= len(tup.Tup) {
			c.abort("extract out of range")
		}
		v := tup.Tup[x.Index]
		c.bind(st, fr, x, v)
	case *ssa.Phi:
		c.abort("phi in the middle of block")
	case *ssa.Call:
		c.execCall(st, fr, x, x.Common(), func(st2 *State, results []T) {
			switch len(results) {
			case 0:
			case 1:
				c.bind(st2, fr, x, results[0])
			default:
				c.bind(st2, fr, x, T{So: "Tuple", Tup: results, Ty: x.Type()})
			}
			c.continueAfter(fr, b, idx+1, st2)
		})
		return true
	case *ssa.Defer:
		common := x.Common()
		// evaluate args now
		callCopy := x
		fr.defers = append(fr.defers, func(st2 *State, k func(st *State)) {
			c.execCall(st2, fr, callCopy, common, func(st3 *State, results []T) { k(st3) })
		})
		// capture argument values eagerly
		for _, a := range common.Args {
			c.valueOf(st, fr, a)
		}
	case *ssa.RunDefers:
		ds := fr.defers
		var run func(i int, st2 *State)
		run = func(i int, st2 *State) {
			if i < 0 {
				c.continueAfter(fr, b, idx+1, st2)
				return
			}
			ds[i](st2, func(st3 *State) { run(i-1, st3) })
		}
		if len(ds) == 0 {
			return false
		}
		run(len(ds)-1, st)
		return true
	case *ssa.Jump:
		c.execBlock(fr, b.Succs[0], b, st)
		return true
	case *ssa.If:
		cond := c.valueOf(st, fr, x.Cond)
		if cond.S == "true" {
			c.execBlock(fr, b.Succs[0], b, st)
			return true
		}
		if cond.S == "false" {
			c.execBlock(fr, b.Succs[1], b, st)
			return true
		}
		st1 := st.clone()
		st1.assume(cond.S)
		savedDefers := append([]func(*State, func(*State)){}, fr.defers...)
		if !c.prune || c.feasible(st1) {
			c.execBlock(fr, b.Succs[0], b, st1)
		}
		fr.defers = savedDefers
		if !c.countPath() {
			return true
		}
		st2 := st
		st2.assume(not(cond.S))
		if !c.prune || c.feasible(st2) {
			c.execBlock(fr, b.Succs[1], b, st2)
		}
		return true
	case *ssa.Return:
		var rs []T
		for _, r := range x.Results {
			rs = append(rs, c.valueOf(st, fr, r))
		}
		fr.onReturn(st, rs)
		return true
	case *ssa.Panic:
		c.execPanic(st, fr, x)
		return true
	case *ssa.Range, *ssa.Next:
		c.execRange(st, fr, in)
	case *ssa.Go, *ssa.Send, *ssa.Select, *ssa.MakeChan:
		c.abort("unsupported instruction %T (outside the subset: goroutines/channels)", in)
	case *ssa.SliceToArrayPointer:
		v := c.valueOf(st, fr, x.X)
		c.bind(st, fr, x, T{S: fmt.Sprintf("(elem (sarr %s) (soff %s))", v.S, v.S), So: "Addr", Ty: x.Type()})
	default:
		c.abort("unsupported instruction %T: %s", in, in)
	}
	return false
}

// ---------- allocation ----------

func (c *Ctx) bumpHeap(st *State) string {
	st.heapTop = c.define(st, "ht", "Int", "(+ "+st.heapTop+" 1)")
	st.ownRoots = st.ownRoots.push(st.heapTop)
	return "(base " + st.heapTop + ")"
}

func (c *Ctx) alloc(st *State, elemT types.Type, zero bool) T {
	addr := c.bumpHeap(st)
	st.assume(fmt.Sprintf("(= (atype %s) %d)", addr, c.reg.TypeID(elemT)))
	if zero {
		if arr, ok := elemT.Underlying().(*types.Array); ok && arr.Len() > 16 {
			c.zeroArray(st, addr, arr.Elem())
		} else {
			c.store(st, addr, elemT, c.zero(elemT))
		}
	}
	return T{S: addr, So: "Addr", Fresh: true}
}

// zeroArray: all leaf cells of a fresh array are zero (quantified).
func (c *Ctx) zeroArray(st *State, arr string, elem types.Type) {
	seen := map[string]bool{}
	lps := c.leafPaths(elem, nil)
	for _, lp := range lps {
		key := leafKey(c.reg.SortOf(lp.ty))
		if seen[key] {
			continue
		}
		seen[key] = true
		old := c.mem(st, key)
		nw := c.freshName("mz_" + sanitize(key))
		st.emit("(declare-const " + nw + " " + c.memSymSort(key) + ")")
		st.mem[key] = nw
		st.assume("(forall ((a Addr)) (! (=> (not (= (root a) (root " + arr + "))) (= (select " + nw + " a) (select " + old + " a))) :pattern ((select " + nw + " a))))")
	}
	for _, lp := range lps {
		key := leafKey(c.reg.SortOf(lp.ty))
		st.assume("(forall ((i Int)) (! (= (select " + c.mem(st, key) + " " + applyPath("(elem "+arr+" i)", lp.path) + ") " + c.zero(lp.ty) + ") :pattern ((elem " + arr + " i))))")
	}
}

func (c *Ctx) allocArray(st *State, elem types.Type, n string) string {
	addr := c.bumpHeap(st)
	st.assume(fmt.Sprintf("(= (atype %s) %d)", addr, c.reg.ArrID(elem)))
	c.zeroArray(st, addr, elem)
	return addr
}

// ---------- unary / binary / convert ----------

func (c *Ctx) execUnOp(st *State, fr *Frame, x *ssa.UnOp) {
	v := c.valueOf(st, fr, x.X)
	switch x.Op {
	case token.MUL:
		if !v.Fresh && !v.NonNil {
			c.safetyOblige(st, fr, x, "nil-deref", "load through nil pointer", "(not (= "+v.S+" nil))")
		}
		if g, ok := x.X.(*ssa.Global); ok {
			if t, ok := c.constGlobal(st, g); ok {
				c.bind(st, fr, x, t)
				return
			}
		}
		ld := c.load(st, v.S, x.Type())
		if g, ok := x.X.(*ssa.Global); ok && c.eng.db.Sentinels[g.Pkg.Pkg.Path()+"."+g.Name()] {
			st.assume("(and (not (= " + ld.S + " nil_iface)) (tag_is_ptr (itag " + ld.S + ")) (= " + ld.S + " " + c.sentinelConst(g.Pkg.Pkg.Path()+"."+g.Name()) + "))")
		}
		c.bind(st, fr, x, ld)
	case token.NOT:
		c.bind(st, fr, x, T{S: c.define(st, "b", "Bool", not(v.S)), So: "Bool", Ty: x.Type()})
	case token.SUB:
		if v.So == "F64" {
			c.bind(st, fr, x, T{S: "(f64_neg " + v.S + ")", So: "F64", Ty: x.Type()})
			return
		}
		ii, _ := intInfoOf(x.Type())
		c.bind(st, fr, x, T{S: c.define(st, "n", "Int", ii.wrap("(- "+v.S+")")), So: "Int", Ty: x.Type()})
	case token.XOR:
		ii, _ := intInfoOf(x.Type())
		if ii.signed {
			c.bind(st, fr, x, T{S: c.define(st, "n", "Int", "(- (- "+v.S+") 1)"), So: "Int", Ty: x.Type()})
		} else {
			c.bind(st, fr, x, T{S: c.define(st, "n", "Int", "(- "+ii.max()+" "+v.S+")"), So: "Int", Ty: x.Type()})
		}
	default:
		c.abort("unsupported unop %s", x.Op)
	}
}

func isConstInt(v ssa.Value) (int64, bool) {
	if k, ok := v.(*ssa.Const); ok && k.Value != nil && k.Value.Kind() == constant.Int {
		if i, ok := constant.Int64Val(k.Value); ok {
			return i, true
		}
	}
	return 0, false
}

func (c *Ctx) execBinOp(st *State, fr *Frame, x *ssa.BinOp) {
	l := c.valueOf(st, fr, x.X)
	r := c.valueOf(st, fr, x.Y)
	rt := x.Type()
	so := c.reg.SortOf(rt)
	opT := x.X.Type()
	res := func(term string) {
		c.bind(st, fr, x, T{S: c.define(st, "v", so, term), So: so, Ty: rt})
	}
	// comparisons
	switch x.Op {
	case token.EQL, token.NEQ:
		var eq string
		switch l.So {
		case "F64":
			eq = "(f64_eq " + l.S + " " + r.S + ")"
		case "Iface":
			if l.S == "nil_iface" || r.S == "nil_iface" {
				eq = "(= " + l.S + " " + r.S + ")"
			} else {
				eq = "(iface_eq " + l.S + " " + r.S + ")"
				st.assume("(=> (= " + l.S + " " + r.S + ") " + eq + ")")
				st.assume("(=> " + eq + " (= (itag " + l.S + ") (itag " + r.S + ")))")
				st.assume("(=> (and " + eq + " (tag_is_ptr (itag " + l.S + "))) (= " + l.S + " " + r.S + "))")
			}
		default:
			eq = "(= " + l.S + " " + r.S + ")"
		}
		if x.Op == token.NEQ {
			eq = not(eq)
		}
		res(eq)
		return
	case token.LSS, token.LEQ, token.GTR, token.GEQ:
		var t string
		switch l.So {
		case "Int":
			op := map[token.Token]string{token.LSS: "<", token.LEQ: "<=", token.GTR: ">", token.GEQ: ">="}[x.Op]
			t = "(" + op + " " + l.S + " " + r.S + ")"
		case "Str":
			switch x.Op {
			case token.LSS:
				t = "(slt_ " + l.S + " " + r.S + ")"
			case token.GTR:
				t = "(slt_ " + r.S + " " + l.S + ")"
			case token.LEQ:
				t = "(not (slt_ " + r.S + " " + l.S + "))"
			case token.GEQ:
				t = "(not (slt_ " + l.S + " " + r.S + "))"
			}
		case "F64":
			switch x.Op {
			case token.LSS:
				t = "(f64_lt " + l.S + " " + r.S + ")"
			case token.GTR:
				t = "(f64_lt " + r.S + " " + l.S + ")"
			case token.LEQ:
				t = "(or (f64_lt " + l.S + " " + r.S + ") (f64_eq " + l.S + " " + r.S + "))"
			case token.GEQ:
				t = "(or (f64_lt " + r.S + " " + l.S + ") (f64_eq " + l.S + " " + r.S + "))"
			}
		default:
			c.abort("comparison on sort %s", l.So)
		}
		res(t)
		return
	}
	switch so {
	case "Bool":
		switch x.Op {
		case token.AND, token.LAND:
			res("(and " + l.S + " " + r.S + ")")
		case token.OR, token.LOR:
			res("(or " + l.S + " " + r.S + ")")
		case token.XOR:
			res("(xor " + l.S + " " + r.S + ")")
		default:
			c.abort("bool binop %s", x.Op)
		}
		return
	case "Str":
		if x.Op == token.ADD {
			res("(sconcat_ " + l.S + " " + r.S + ")")
			return
		}
	case "F64":
		op := map[token.Token]string{token.ADD: "f64_add", token.SUB: "f64_sub", token.MUL: "f64_mul", token.QUO: "f64_div"}[x.Op]
		if op == "" {
			c.abort("float binop %s", x.Op)
		}
		res("(" + op + " " + l.S + " " + r.S + ")")
		return
	case "Int":
		ii, _ := intInfoOf(rt)
		switch x.Op {
		case token.ADD:
			res(ii.wrap("(+ " + l.S + " " + r.S + ")"))
		case token.SUB:
			res(ii.wrap("(- " + l.S + " " + r.S + ")"))
		case token.MUL:
			res(ii.wrap("(* " + l.S + " " + r.S + ")"))
		case token.QUO:
			c.safetyOblige(st, fr, x, "div-zero", "division by zero", "(not (= "+r.S+" 0))")
			res(ii.wrap("(tdiv " + l.S + " " + r.S + ")"))
		case token.REM:
			c.safetyOblige(st, fr, x, "div-zero", "division by zero", "(not (= "+r.S+" 0))")
			res("(tmod " + l.S + " " + r.S + ")")
		case token.SHL:
			if k, ok := isConstInt(x.Y); ok && k >= 0 && k < 64 {
				res(ii.wrap("(* " + l.S + " " + pow2(int(k)) + ")"))
			} else {
				res(ii.wrap("(bits_shl " + l.S + " " + r.S + ")"))
			}
		case token.SHR:
			if k, ok := isConstInt(x.Y); ok && k >= 0 && k < 64 {
				res("(div " + l.S + " " + pow2(int(k)) + ")")
			} else {
				n := c.define(st, "v", "Int", "(bits_shr "+l.S+" "+r.S+")")
				st.assume(ii.rangeFact(n))
				c.bind(st, fr, x, T{S: n, So: "Int", Ty: rt})
			}
		case token.AND:
			if k, ok := isConstInt(x.Y); ok && k >= 0 && (k&(k+1)) == 0 {
				res("(mod " + l.S + " " + fmt.Sprint(k+1) + ")")
			} else if k, ok := isConstInt(x.X); ok && k >= 0 && (k&(k+1)) == 0 {
				res("(mod " + r.S + " " + fmt.Sprint(k+1) + ")")
			} else {
				n := c.define(st, "v", "Int", "(bits_and "+l.S+" "+r.S+")")
				st.assume(ii.rangeFact(n))
				iiX, _ := intInfoOf(opT)
				if !iiX.signed {
					st.assume("(and (<= " + n + " " + l.S + ") (<= " + n + " " + r.S + "))")
				}
				c.bind(st, fr, x, T{S: n, So: "Int", Ty: rt})
			}
		case token.OR, token.XOR, token.AND_NOT:
			op := map[token.Token]string{token.OR: "bits_or", token.XOR: "bits_xor", token.AND_NOT: "bits_and"}[x.Op]
			n := c.define(st, "v", "Int", "("+op+" "+l.S+" "+r.S+")")
			st.assume(ii.rangeFact(n))
			c.bind(st, fr, x, T{S: n, So: "Int", Ty: rt})
		default:
			c.abort("int binop %s", x.Op)
		}
		return
	}
	c.abort("binop %s on sort %s", x.Op, so)
}

func (c *Ctx) execConvert(st *State, fr *Frame, x *ssa.Convert) {
	v := c.valueOf(st, fr, x.X)
	from := x.X.Type()
	to := x.Type()
	fso := c.reg.SortOf(from)
	tso := c.reg.SortOf(to)
	switch {
	case fso == "Int" && tso == "Int":
		fi, _ := intInfoOf(from)
		ti, _ := intInfoOf(to)
		if (fi.signed == ti.signed && ti.bits >= fi.bits) || (!fi.signed && ti.signed && ti.bits > fi.bits) {
			v.Ty = to
			c.bind(st, fr, x, v)
			return
		}
		c.bind(st, fr, x, T{S: c.define(st, "cv", "Int", ti.wrap(v.S)), So: "Int", Ty: to})
	case fso == "Int" && tso == "F64":
		c.bind(st, fr, x, T{S: "(f64_of_int " + v.S + ")", So: "F64", Ty: to})
	case fso == "F64" && tso == "Int":
		n := c.define(st, "cv", "Int", "(int_of_f64 "+v.S+")")
		ti, _ := intInfoOf(to)
		st.assume(ti.rangeFact(n))
		c.bind(st, fr, x, T{S: n, So: "Int", Ty: to})
	case fso == "F64" && tso == "F64":
		v.Ty = to
		c.bind(st, fr, x, v)
	case fso == "Str" && tso == "Str":
		v.Ty = to
		c.bind(st, fr, x, v)
	case fso == "Str" && tso == "Slice":
		// []byte(s) : fresh array with the same content
		arr := c.bumpHeap(st)
		st.assume(fmt.Sprintf("(= (atype %s) %d)", arr, c.reg.ArrID(types.Typ[types.Uint8])))
		key := leafKey("Int")
		old := c.mem(st, key)
		nw := c.freshName("mc_" + sanitize(key))
		st.emit("(declare-const " + nw + " " + c.memSymSort(key) + ")")
		st.mem[key] = nw
		st.assume("(forall ((a Addr)) (! (=> (not (= (root a) (root " + arr + "))) (= (select " + nw + " a) (select " + old + " a))) :pattern ((select " + nw + " a))))")
		st.assume("(forall ((i Int)) (! (=> (and (<= 0 i) (< i (slen_ " + v.S + "))) (= (select " + nw + " (elem " + arr + " i)) (sat_ " + v.S + " i))) :pattern ((select " + nw + " (elem " + arr + " i)))))")
		c.bind(st, fr, x, T{S: c.define(st, "sl", "Slice", "(mk_slice "+arr+" 0 (slen_ "+v.S+") (slen_ "+v.S+"))"), So: "Slice", Ty: to, Fresh: true})
	case fso == "Slice" && tso == "Str":
		n := c.declare(st, "str", "Str")
		st.assume("(= (slen_ " + n + ") (slen " + v.S + "))")
		m := c.mem(st, leafKey("Int"))
		st.assume("(forall ((i Int)) (! (=> (and (<= 0 i) (< i (slen " + v.S + "))) (= (sat_ " + n + " i) (select " + m + " (elem (sarr " + v.S + ") (ix (soff " + v.S + ") i))))) :pattern ((sat_ " + n + " i))))")
		c.bind(st, fr, x, T{S: n, So: "Str", Ty: to})
	case fso == "Int" && tso == "Str":
		n := c.declare(st, "str", "Str")
		c.bind(st, fr, x, T{S: n, So: "Str", Ty: to})
	case fso == "Addr" && tso == "Addr":
		v.Ty = to
		c.bind(st, fr, x, v)
	default:
		c.abort("unsupported conversion %s -> %s", from, to)
	}
}

func (c *Ctx) execMakeInterface(st *State, fr *Frame, x *ssa.MakeInterface) {
	v := c.valueOf(st, fr, x.X)
	dt := x.X.Type()
	tag := c.reg.TagOf(dt)
	if _, isPtr := dt.Underlying().(*types.Pointer); isPtr {
		// (*T)(nil) in an interface is a non-nil interface; keep it precise
		c.bind(st, fr, x, T{S: c.define(st, "if", "Iface", fmt.Sprintf("(mk_iface %d %s)", tag, v.S)), So: "Iface", Ty: x.Type(), Dyn: dt, Fresh: v.Fresh})
		return
	}
	// value type: box into a fresh immutable cell (box memories are constants: never havocked)
	box := c.alloc(st, dt, false)
	st.assume("(= " + c.loadWith(c.boxMem, box.S, dt) + " " + v.S + ")")
	c.bind(st, fr, x, T{S: c.define(st, "if", "Iface", fmt.Sprintf("(mk_iface %d %s)", tag, box.S)), So: "Iface", Ty: x.Type(), Dyn: dt, Fresh: true})
}

func (c *Ctx) execTypeAssert(st *State, fr *Frame, x *ssa.TypeAssert) {
	v := c.valueOf(st, fr, x.X)
	at := x.AssertedType
	var ok string
	var val T
	if _, isIface := at.Underlying().(*types.Interface); isIface {
		id := c.reg.IfaceID(at)
		c.ifaceTypes[types.TypeString(at, nil)] = at
		if types.Identical(at.Underlying(), x.X.Type().Underlying()) || (types.IsInterface(x.X.Type()) && types.Implements(x.X.Type(), at.Underlying().(*types.Interface))) {
			ok = "(not (= (itag " + v.S + ") 0))"
		} else {
			ok = fmt.Sprintf("(and (not (= (itag %s) 0)) (implements_ (itag %s) %d))", v.S, v.S, id)
		}
		val = T{S: v.S, So: "Iface", Ty: at, Dyn: v.Dyn}
	} else {
		tag := c.reg.TagOf(at)
		ok = fmt.Sprintf("(= (itag %s) %d)", v.S, tag)
		if _, isPtr := at.Underlying().(*types.Pointer); isPtr {
			val = T{S: "(ipay " + v.S + ")", So: "Addr", Ty: at}
		} else {
			val = c.loadBox(st, "(ipay "+v.S+")", at)
		}
	}
	okN := c.define(st, "ok", "Bool", ok)
	if x.CommaOk {
		// value is zero when !ok
		so := c.reg.SortOf(at)
		zv := T{S: c.define(st, "ta", so, "(ite "+okN+" "+val.S+" "+c.zero(at)+")"), So: so, Ty: at, Dyn: val.Dyn}
		c.bind(st, fr, x, T{So: "Tuple", Tup: []T{zv, {S: okN, So: "Bool", Ty: types.Typ[types.Bool]}}})
		return
	}
	c.safetyOblige(st, fr, x, "type-assert", "type assertion to "+types.TypeString(at, relQual), okN)
	c.bind(st, fr, x, val)
}

func relQual(p *types.Package) string { return p.Name() }

func (c *Ctx) execSlice(st *State, fr *Frame, x *ssa.Slice) {
	v := c.valueOf(st, fr, x.X)
	get := func(e ssa.Value, def string) string {
		if e == nil {
			return def
		}
		return c.valueOf(st, fr, e).S
	}
	switch u := x.X.Type().Underlying().(type) {
	case *types.Slice:
		lo := get(x.Low, "0")
		hi := get(x.High, "(slen "+v.S+")")
		mx := get(x.Max, "(scap "+v.S+")")
		if x.Low != nil || x.High != nil || x.Max != nil {
			c.safetyOblige(st, fr, x, "slice-bounds", "slice bounds in range", fmt.Sprintf("(and (<= 0 %s) (<= %s %s) (<= %s %s) (<= %s (scap %s)))", lo, lo, hi, hi, mx, mx, v.S))
		}
		c.bind(st, fr, x, T{S: c.define(st, "sl", "Slice", fmt.Sprintf("(mk_slice (sarr %s) (+ (soff %s) %s) (- %s %s) (- %s %s))", v.S, v.S, lo, hi, lo, mx, lo)), So: "Slice", Ty: x.Type(), Fresh: v.Fresh})
	case *types.Basic:
		lo := get(x.Low, "0")
		hi := get(x.High, "(slen_ "+v.S+")")
		c.safetyOblige(st, fr, x, "slice-bounds", "string slice bounds in range", fmt.Sprintf("(and (<= 0 %s) (<= %s %s) (<= %s (slen_ %s)))", lo, lo, hi, hi, v.S))
		n := c.define(st, "ss", "Str", fmt.Sprintf("(ssub_ %s %s %s)", v.S, lo, hi))
		st.assume(fmt.Sprintf("(= (slen_ %s) (- %s %s))", n, hi, lo))
		st.assume(fmt.Sprintf("(forall ((i Int)) (! (=> (and (<= 0 i) (< i (- %s %s))) (= (sat_ %s i) (sat_ %s (+ %s i)))) :pattern ((sat_ %s i))))", hi, lo, n, v.S, lo, n))
		st.assume(fmt.Sprintf("(=> (and (= %s 0) (= %s (slen_ %s))) (= %s %s))", lo, hi, v.S, n, v.S))
		c.bind(st, fr, x, T{S: n, So: "Str", Ty: x.Type()})
	case *types.Pointer:
		arr := u.Elem().Underlying().(*types.Array)
		if !v.Fresh {
			c.safetyOblige(st, fr, x, "nil-deref", "slice of nil array pointer", "(not (= "+v.S+" nil))")
		}
		n := fmt.Sprint(arr.Len())
		lo := get(x.Low, "0")
		hi := get(x.High, n)
		mx := get(x.Max, n)
		if x.Low != nil || x.High != nil || x.Max != nil {
			c.safetyOblige(st, fr, x, "slice-bounds", "array slice bounds in range", fmt.Sprintf("(and (<= 0 %s) (<= %s %s) (<= %s %s) (<= %s %s))", lo, lo, hi, hi, mx, mx, n))
		}
		c.bind(st, fr, x, T{S: c.define(st, "sl", "Slice", fmt.Sprintf("(mk_slice %s %s (- %s %s) (- %s %s))", v.S, lo, hi, lo, mx, lo)), So: "Slice", Ty: x.Type(), Fresh: v.Fresh})
	default:
		c.abort("slice of %s", x.X.Type())
	}
}

// ---------- maps ----------

func (c *Ctx) mapKeys(mt *types.Map) (dk, vk, ks, vs string) {
	ks = c.reg.SortOf(mt.Key())
	vs = c.reg.SortOf(mt.Elem())
	return "MD:" + ks, "MV:" + ks + "|" + vs, ks, vs
}

func (c *Ctx) makeMap(st *State, t types.Type) T {
	mt := t.Underlying().(*types.Map)
	dk, _, ks, _ := c.mapKeys(mt)
	addr := c.bumpHeap(st)
	c.setMem(st, dk, "(store "+c.mem(st, dk)+" "+addr+" ((as const (Array "+ks+" Bool)) false))")
	c.setMem(st, "ML", "(store "+c.mem(st, "ML")+" "+addr+" 0)")
	return T{S: addr, So: "Addr", Ty: t, Fresh: true}
}

func (c *Ctx) mapDom(st *State, m string, mt *types.Map, k string) string {
	dk, _, _, _ := c.mapKeys(mt)
	return "(select (select " + c.mem(st, dk) + " " + m + ") " + k + ")"
}
func (c *Ctx) mapVal(st *State, m string, mt *types.Map, k string) string {
	_, vk, _, _ := c.mapKeys(mt)
	return "(select (select " + c.mem(st, vk) + " " + m + ") " + k + ")"
}

func (c *Ctx) execLookup(st *State, fr *Frame, x *ssa.Lookup) {
	m := c.valueOf(st, fr, x.X)
	k := c.valueOf(st, fr, x.Index)
	mt, isMap := x.X.Type().Underlying().(*types.Map)
	if !isMap {
		// string index
		c.safetyOblige(st, fr, x, "index", "string index in range", "(and (<= 0 "+k.S+") (< "+k.S+" (slen_ "+m.S+")))")
		c.bind(st, fr, x, T{S: c.define(st, "ch", "Int", fmt.Sprintf("(sat_ %s %s)", m.S, k.S)), So: "Int", Ty: x.Type()})
		return
	}
	vt := mt.Elem()
	vs := c.reg.SortOf(vt)
	ks := k.S
	// interface-typed keys are compared as (tag, payload) pairs: exact for pointer-shaped dynamic
	// types, an under-approximation of Go's == for boxed value types (listed as an assumption)
	dom := c.define(st, "dom", "Bool", "(and (not (= "+m.S+" nil)) "+c.mapDom(st, m.S, mt, ks)+")")
	val := c.define(st, "mv", vs, "(ite "+dom+" "+c.mapVal(st, m.S, mt, ks)+" "+c.zero(vt)+")")
	st.assume(c.wf(val, vt, st.heapTop))
	vT := T{S: val, So: vs, Ty: vt}
	if x.CommaOk {
		c.bind(st, fr, x, T{So: "Tuple", Tup: []T{vT, {S: dom, So: "Bool", Ty: types.Typ[types.Bool]}}})
	} else {
		c.bind(st, fr, x, vT)
	}
}

func (c *Ctx) execMapUpdate(st *State, fr *Frame, x *ssa.MapUpdate) {
	m := c.valueOf(st, fr, x.Map)
	k := c.valueOf(st, fr, x.Key)
	v := c.valueOf(st, fr, x.Value)
	mt := x.Map.Type().Underlying().(*types.Map)
	dk, vk, _, _ := c.mapKeys(mt)
	if !m.Fresh {
		c.safetyOblige(st, fr, x, "nil-map-write", "assignment to entry in nil map", "(not (= "+m.S+" nil))")
		c.frameCheckMap(st, fr, x, m.S)
	}
	wasIn := c.define(st, "was", "Bool", c.mapDom(st, m.S, mt, k.S))
	c.setMem(st, dk, "(store "+c.mem(st, dk)+" "+m.S+" (store (select "+c.mem(st, dk)+" "+m.S+") "+k.S+" true))")
	c.setMem(st, vk, "(store "+c.mem(st, vk)+" "+m.S+" (store (select "+c.mem(st, vk)+" "+m.S+") "+k.S+" "+v.S+"))")
	c.setMem(st, "ML", "(store "+c.mem(st, "ML")+" "+m.S+" (ite "+wasIn+" (select "+c.mem(st, "ML")+" "+m.S+") (+ (select "+c.mem(st, "ML")+" "+m.S+") 1)))")
}

// execRange: range over a map or a string, abstracted: each Next yields either "done" or an
// arbitrary element of the collection (any order, repetitions allowed) — an over-approximation of
// every real iteration order, sufficient for frames and safety. Loops over it still need their cut
// point like any other loop.
func (c *Ctx) execRange(st *State, fr *Frame, in ssa.Instruction) {
	switch x := in.(type) {
	case *ssa.Range:
		v := c.valueOf(st, fr, x.X)
		c.bind(st, fr, x, T{S: v.S, So: "RangeIter", Ty: x.X.Type()})
	case *ssa.Next:
		it := c.valueOf(st, fr, x.Iter)
		ok := c.declare(st, "rok", "Bool")
		tup := []T{{S: ok, So: "Bool", Ty: types.Typ[types.Bool]}}
		tt := x.Type().(*types.Tuple)
		if x.IsString {
			i := c.declare(st, "ri", "Int")
			r := c.declare(st, "rr", "Int")
			st.assume("(=> " + ok + " (and (<= 0 " + i + ") (< " + i + " (slen_ " + it.S + ")) (<= 0 " + r + ") (<= " + r + " 1114111)))")
			tup = append(tup, T{S: i, So: "Int", Ty: types.Typ[types.Int]}, T{S: r, So: "Int", Ty: types.Typ[types.Rune]})
		} else {
			mt, isMap := it.Ty.Underlying().(*types.Map)
			if !isMap {
				c.abort("range over %s not supported", it.Ty)
			}
			kt, vt := mt.Key(), mt.Elem()
			ks, vs := c.reg.SortOf(kt), c.reg.SortOf(vt)
			k := c.declare(st, "rk", ks)
			st.assume(c.wf(k, kt, st.heapTop))
			st.assume("(=> " + ok + " (and (not (= " + it.S + " nil)) " + c.mapDom(st, it.S, mt, k) + "))")
			v := c.define(st, "rv", vs, c.mapVal(st, it.S, mt, k))
			st.assume(c.wf(v, vt, st.heapTop))
			kT, vT := T{S: k, So: ks, Ty: kt}, T{S: v, So: vs, Ty: vt}
			_ = tt
			tup = append(tup, kT, vT)
		}
		c.bind(st, fr, x, T{So: "Tuple", Tup: tup})
	}
}

// ---------- panic / return ----------

func (c *Ctx) execPanic(st *State, fr *Frame, x *ssa.Panic) {
	goal := "false"
	// contractually permitted panics (top-level function only)
	if fr.contract != nil {
		var conds []string
		for _, cl := range fr.contract.Clauses {
			if cl.Kind == "panicsif" {
				conds = append(conds, c.evalBoolIn(st, fr, cl.E, fr.entry))
			}
		}
		if len(conds) > 0 {
			goal = or(conds...)
		}
	}
	if !c.safety {
		return
	}
	if fr.contract != nil && fr.contract.Flags["nosafety"] {
		return
	}
	if c.contract != nil && c.contract.Flags["nosafety"] {
		return
	}
	c.oblige(st, fr, x, "panic", "explicit panic is unreachable", goal, nil, nil)
}

// nonEscaping: the address of the Alloc is only used for field/element addressing, loads and stores.
func nonEscaping(a ssa.Value) bool {
	seen := map[ssa.Value]bool{}
	var ok func(v ssa.Value) bool
	ok = func(v ssa.Value) bool {
		if seen[v] {
			return true
		}
		seen[v] = true
		refs := v.Referrers()
		if refs == nil {
			return false
		}
		for _, r := range *refs {
			switch x := r.(type) {
			case *ssa.DebugRef:
			case *ssa.UnOp:
				if x.Op != token.MUL {
					return false
				}
			case *ssa.Store:
				if x.Val == v {
					return false
				}
			case *ssa.FieldAddr:
				if !ok(x) {
					return false
				}
			case *ssa.IndexAddr:
				if x.X != v || !ok(x) {
					return false
				}
			case *ssa.MakeClosure:
				// captured by a closure of this function that is only ever called directly (never
				// stored or passed on): the cell stays private as long as the closure body itself
				// only loads/stores through it
				if !closureOnlyCalled(x) {
					return false
				}
				fn := x.Fn.(*ssa.Function)
				for i, b := range x.Bindings {
					if b == v {
						if i >= len(fn.FreeVars) || !ok(fn.FreeVars[i]) {
							return false
						}
					}
				}
			default:
				return false
			}
		}
		return true
	}
	return ok(a)
}

// ghostZero: mutable integer/boolean ghost fields of a newly allocated object (seen through any
// interface it implements) start at zero/false.
func (c *Ctx) ghostZero(st *State, addr string, ptrT types.Type) {
	pt, ok := ptrT.Underlying().(*types.Pointer)
	if !ok {
		return
	}
	if _, isNamed := pt.Elem().(*types.Named); !isNamed {
		return
	}
	var keys []string
	for k, g := range c.eng.ghostByType {
		if g.Mutable {
			keys = append(keys, k)
		}
	}
	sortStrings(keys)
	for _, k := range keys {
		g := c.eng.ghostByType[k]
		ot := c.eng.ghostOwnerType[k]
		if ot == nil {
			continue
		}
		iu, ok := ot.Underlying().(*types.Interface)
		if !ok || !types.Implements(ptrT, iu) {
			continue
		}
		se := &SpecEnv{c: c, st: st, vars: map[string]T{}, pkg: g.Pkg}
		_, so := se.resolveTypeIn(g.Pkg, g.Sort)
		var zero string
		switch so {
		case "Int":
			zero = "0"
		case "Bool":
			zero = "false"
		default:
			continue
		}
		mk := "G:" + k
		c.memSorts[mk] = "(Array Iface " + so + ")"
		c.eng.ghostOwnerSort[mk] = "Iface"
		owner := fmt.Sprintf("(mk_iface %d %s)", c.reg.TagOf(ptrT), addr)
		st.assume("(= (select " + c.mem(st, mk) + " " + owner + ") " + zero + ")")
	}
}

// sentinelConst: the (never reassigned) value of a sentinel error variable.
func (c *Ctx) sentinelConst(full string) string {
	n := "sentinel_" + sanitize(full)
	c.reg.AddDecl("sentinel:"+full, "(declare-const "+n+" Iface)\n(assert (not (= "+n+" nil_iface)))")
	return n
}

func closureOnlyCalled(mc *ssa.MakeClosure) bool {
	refs := mc.Referrers()
	if refs == nil {
		return false
	}
	for _, r := range *refs {
		switch y := r.(type) {
		case *ssa.DebugRef:
		case *ssa.Call:
			if y.Call.Value != mc {
				return false
			}
			for _, a := range y.Call.Args {
				if a == mc {
					return false
				}
			}
		default:
			return false
		}
	}
	return true
}
