#!/bin/sh
# usage (from a snapshot of /verif):  vp run --with-repo -- tools/run_harmless_snap.sh [id...]
# Applies each behaviour-preserving edit of harmless/ to the snapshot of /repo ($VP_RUN_REPO) and runs every
# registered quick check on it: any VIOLATION is a false alarm. Nothing in /verif or /repo is touched.
export GOFLAGS=-mod=mod GOPROXY=off
here=$(pwd); repo=${VP_RUN_REPO:?needs --with-repo}
(cd govc && go build -o $here/bin/govc .) || exit 2
ids="$@"; [ -z "$ids" ] && ids=$(ls harmless)
props=$(python3 -c "import json;print(' '.join(c['property_id'] for c in json.load(open('MANIFEST.json'))['checks']))")
for id in $ids; do
  git -C $repo apply $here/harmless/$id/patch.diff 2>/dev/null || { echo "$id: PATCH DOES NOT APPLY"; continue; }
  bad=""
  for p in $props; do
    out=$(VERIF_DIR=$here VERIF_REPO=$repo $here/bin/govc check $p quick 2>&1)
    if echo "$out" | grep -q "^VIOLATION"; then bad="$bad $p"; echo "$out" | grep "failed obligation" | head -3 | sed "s/^/    [$id $p] /" | cut -c1-260; fi
  done
  git -C $repo apply -R $here/harmless/$id/patch.diff
  echo "$id: $( [ -z "$bad" ] && echo "no alarm" || echo "FALSE ALARM in:$bad" )"
done
