#!/bin/sh
# usage: tools/mk_seed_wt.sh <dir> : scratch worktree of /repo for a seeding sub-agent, without the contract files
# (the contract files are hooks in /repo; the sub-agent must not see them). The removals are staged so that
# `git diff` in the worktree shows only the sub-agent's own unstaged edits.
wt=$1
git -C /repo worktree add --detach -q $wt HEAD || exit 1
cd $wt && git rm -q $(git ls-files '*verif_contracts.go') && echo "worktree $wt ready"
