#!/usr/bin/env python3
# Regenerates /verif/MANIFEST.json from contracts/properties.json + tools/claims.json.
import json, subprocess
V = '/verif'
props = [json.loads(l)['id'] for l in open(V + '/properties.jsonl')]
cfg = json.load(open(V + '/contracts/properties.json'))
claims = json.load(open(V + '/tools/claims.json'))
hooks = subprocess.run(['git', '-C', '/repo', 'log', '--format=%H %s'], capture_output=True, text=True).stdout.splitlines()
hook_commits = [l.split()[0] for l in hooks if 'verif hook' in l]
checks, na = [], []
for p in props:
    c = claims.get(p, {})
    if p in cfg and c.get('claimed'):
        checks.append({
            'property_id': p,
            'quick_cmd': '/verif/check %s quick' % p,
            'thorough_cmd': '/verif/check %s thorough' % p,
            'evidence_file': '/verif/evidence/%s.json' % p,
            'replay_cmd_template': '/verif/check replay {path}',
            'engine': 'govc',
            'level_claimed': {'category': c.get('category', 'proof'), 'text': c['text'], 'design_ref': c.get('design_ref', 'DESIGN.md §5 ' + p)},
            'level_note': c['note'],
            'technique': c.get('technique', 'contract-based deductive verification: VCs generated from go/ssa of the real functions against //@ contracts, discharged by z3/cvc5'),
        })
    else:
        na.append({'property_id': p, 'reason': c.get('na_reason', 'check not yet implemented in this commit (framework under construction; see DESIGN.md)')})
m = {
    'version': 1,
    'setup_cmd': 'cd /verif/govc && GOFLAGS=-mod=mod GOPROXY=off go build -o /verif/bin/govc .',
    'hooks': {'guard': 'verif', 'enable': 'packages are loaded with -tags verif; the hooks are comment-only contract files /repo/<pkg>/verif_contracts.go (//go:build verif) read by govc',
              'baseline_off_cmd': 'cd /repo && GOFLAGS=-mod=mod GOPROXY=off go test -vet=off -count=1 -timeout 25m ./...',
              'source_commits': hook_commits, 'add_only': True},
    'engines': [{'name': 'govc', 'path': '/verif/govc', 'serves_properties': [c['property_id'] for c in checks],
                 'kind_free_text': 'self-written VC generator (path-sensitive symbolic execution with loop cut points, modular calls) over go/ssa of /repo\'s working tree; contracts in //@ comment files; obligations discharged by a portfolio of z3 5.1.0, cvc5 1.0.3, z3 4.8.12'}],
    'checks': checks,
    'notes': 'see DESIGN.md; known findings in /verif/known_findings.json; obligations excluded as undecided in /verif/unproved.json',
    'not_applicable': na,
}
json.dump(m, open(V + '/MANIFEST.json', 'w'), indent=1)
print('checks:', [c['property_id'] for c in checks])
