package main

import (
	"flag"
	"fmt"
	"os"
	"path/filepath"
	"sort"
	"strings"
	"sync"
	"time"

	"golang.org/x/tools/go/ssa"
)

func envOr(k, d string) string {
	if v := os.Getenv(k); v != "" {
		return v
	}
	return d
}

func main() {
	if len(os.Args) < 2 {
		fmt.Fprintln(os.Stderr, "usage: govc dump|verify|check ...")
		os.Exit(2)
	}
	switch os.Args[1] {
	case "dump":
		cmdDump(os.Args[2:])
	case "verify":
		cmdVerify(os.Args[2:])
	case "check":
		os.Exit(cmdCheck(os.Args[2:]))
	case "uncovered":
		// govc uncovered <pkg pattern>...: functions of the given packages that have a body but no contract
		// of their own (they are verified only where a caller inlines them, or not at all)
		e, err := LoadEngine(envOr("VERIF_REPO", "/repo"), os.Args[2:])
		if err != nil {
			fmt.Fprintln(os.Stderr, err)
			os.Exit(2)
		}
		if err := e.LoadSpecs(filepath.Join(envOr("VERIF_DIR", "/verif"), "contracts/external")); err != nil {
			fmt.Fprintln(os.Stderr, err)
			os.Exit(2)
		}
		e.expandSweeps()
		var keys []string
		for k, fn := range e.funcs {
			if fn.Blocks == nil || !strings.HasPrefix(k, e.modulePath) || fn.Synthetic != "" {
				continue
			}
			pk := k[:strings.Index(k, "::")]
			if p, ok := e.pkgs[pk]; !ok || len(p.Syntax) == 0 {
				continue
			}
			want := false
			for _, a := range os.Args[2:] {
				if strings.HasSuffix(pk, strings.TrimPrefix(a, ".")) {
					want = true
				}
			}
			if !want {
				continue
			}
			if ct := e.db.Contracts[k]; ct == nil {
				keys = append(keys, fmt.Sprintf("%s  (%d instrs)", strings.TrimPrefix(k, e.modulePath+"/"), countInstrs(fn)))
			}
		}
		sort.Strings(keys)
		for _, k := range keys {
			fmt.Println(k)
		}
	case "replay":
		os.Exit(cmdReplay(os.Args[2:]))
	case "lemmas":
		os.Exit(cmdLemmas(os.Args[2:]))
	case "template":
		// govc template <file.go.txt> [args]: build the program against the working tree in a
		// scratch module and run it (used by bounded stand-ins and finding replays)
		if len(os.Args) < 3 {
			fmt.Fprintln(os.Stderr, "usage: govc template <file> [args]")
			os.Exit(2)
		}
		code, out := runTemplate(envOr("VERIF_REPO", "/repo"), "github.com/ipld/go-ipld-prime", os.Args[2], os.Args[3:])
		fmt.Print(out)
		os.Exit(code)
	default:
		fmt.Fprintln(os.Stderr, "unknown command", os.Args[1])
		os.Exit(2)
	}
}

func cmdDump(args []string) {
	e, err := LoadEngine(envOr("VERIF_REPO", "/repo"), strings.Split(args[0], ","))
	if err != nil {
		fmt.Fprintln(os.Stderr, err)
		os.Exit(2)
	}
	var keys []string
	for k := range e.funcs {
		keys = append(keys, k)
	}
	sort.Strings(keys)
	for _, k := range keys {
		if len(args) < 2 {
			if strings.HasPrefix(k, e.modulePath) {
				fmt.Println(k)
			}
			continue
		}
		if strings.Contains(k, args[1]) {
			fmt.Println("## key:", k)
			e.funcs[k].WriteTo(os.Stdout)
		}
	}
}

func (e *Engine) resolveFuncKeys(pat string) []string {
	if _, ok := e.funcs[pat]; ok {
		return []string{pat}
	}
	var out []string
	for k := range e.funcs {
		if strings.HasSuffix(k, pat) {
			out = append(out, k)
		}
	}
	sort.Strings(out)
	return out
}

// solveAll discharges obligations of a function result in parallel.
func (e *Engine) solveAll(results []*FuncResult, wantModel bool) {
	var wg sync.WaitGroup
	for _, r := range results {
		for _, o := range r.Obls {
			if o.Trivial {
				o.Status, o.Solver = "unsat", "by-construction"
				continue
			}
			wg.Add(1)
			go func(r *FuncResult, o *Obligation) {
				defer wg.Done()
				q := o.Query(r.Prelude, false)
				o.QueryLen = len(q)
				var sr SolveResult
				if o.Expect == "sat" {
					sr = e.solver.SolveT(q, 2)
				} else if e.expectUndecided[o.Name] && e.shortBudget > 0 {
					// an obligation recorded as a known finding (or as undecided) is expected not to discharge:
					// the quick tier does not spend the whole budget on it (it is reported either way; the
					// thorough tier gives it the full budget)
					sr = e.solver.SolveT(q, e.shortBudget)
				} else {
					sr = e.solver.Solve(q, true)
				}
				o.Status = sr.Status
				o.Solver = sr.Solver
				o.Time = sr.Time
				o.Model = sr.Output
				if o.Expect == "sat" {
					// vacuity check: anything but unsat is fine
					if sr.Status == "unsat" {
						o.Status = "vacuous"
					} else {
						o.Status = "unsat" // counts as discharged
						o.Model = ""
					}
				}
			}(r, o)
		}
	}
	wg.Wait()
}

func cmdVerify(args []string) {
	fs := flag.NewFlagSet("verify", flag.ExitOnError)
	prop := fs.String("prop", "", "property tag")
	verbose := fs.Bool("v", false, "verbose")
	nosafety := fs.Bool("nosafety", false, "skip implicit safety obligations")
	timeout := fs.Float64("timeout", 10, "solver timeout (s)")
	dumpq := fs.String("dumpq", "", "write the query of obligations whose name contains this to /verif/out/q")
	nocache := fs.Bool("nocache", false, "bypass cache")
	fs.Parse(args)
	rest := fs.Args()
	if len(rest) < 2 {
		fmt.Fprintln(os.Stderr, "usage: govc verify [flags] <pkgpatterns> <func>...")
		os.Exit(2)
	}
	t0 := time.Now()
	e, err := LoadEngine(envOr("VERIF_REPO", "/repo"), strings.Split(rest[0], ","))
	if err != nil {
		fmt.Fprintln(os.Stderr, err)
		os.Exit(2)
	}
	if err := e.LoadSpecs(envOr("VERIF_EXT", "/verif/contracts/external")); err != nil {
		fmt.Fprintln(os.Stderr, "spec error:", err)
		os.Exit(2)
	}
	e.solver = NewSolverPool(16, "/verif/.cache", "/verif/out/tmp", *timeout, 0)
	e.solver.noCache = *nocache
	fmt.Printf("loaded in %.1fs\n", time.Since(t0).Seconds())
	var results []*FuncResult
	for _, pat := range rest[1:] {
		keys := e.resolveFuncKeys(pat)
		if len(keys) == 0 {
			fmt.Println("no function matches", pat)
		}
		for _, k := range keys {
			t1 := time.Now()
			r := e.VerifyFunction(k, *prop, !*nosafety)
			fmt.Printf("%s: %d obligations, %d paths, %d returns, gen %.2fs", k, len(r.Obls), r.Paths, r.Returns, time.Since(t1).Seconds())
			if r.Aborted != "" {
				fmt.Printf("  ABORTED: %s", r.Aborted)
			}
			fmt.Println()
			results = append(results, r)
		}
	}
	t2 := time.Now()
	e.solveAll(results, false)
	fmt.Printf("solved in %.1fs\n", time.Since(t2).Seconds())
	seenFail := map[string]bool{}
	for _, r := range results {
		byName := map[string][]*Obligation{}
		var names []string
		for _, o := range r.Obls {
			if _, ok := byName[o.Name]; !ok {
				names = append(names, o.Name)
			}
			byName[o.Name] = append(byName[o.Name], o)
		}
		ok, bad := 0, 0
		for _, n := range names {
			status := "unsat"
			var worst *Obligation
			tt := 0.0
			for _, o := range byName[n] {
				tt += o.Time
				if o.Status != "unsat" {
					status = o.Status
					worst = o
					if *verbose {
						key := o.Status + "|" + o.Desc
						if !seenFail[key] {
							seenFail[key] = true
							fmt.Printf("       failing instance [%s]: %s (first path %s)\n", o.Status, o.Desc, o.Path)
						}
					}
				}
			}
			if status == "unsat" {
				ok++
				if *verbose {
					fmt.Printf("  ok   %-60s x%d %.2fs %s\n", n, len(byName[n]), tt, byName[n][0].Desc)
				}
			} else {
				bad++
				fmt.Printf("  FAIL %-60s [%s by %s] %s  @%s\n", n, status, worst.Solver, worst.Desc, worst.Pos)
				if *verbose {
					fmt.Println("     path:", worst.Path)
					fmt.Println("     goal:", worst.Goal)
					if worst.Status == "error" || *verbose {
						fmt.Println("     out:", firstLines(worst.Model, 12))
					}
				}
			}
			if *dumpq != "" && strings.Contains(n, *dumpq) {
				os.MkdirAll("/verif/out/q", 0o755)
				for i, o := range byName[n] {
					f := fmt.Sprintf("/verif/out/q/%s_%d.smt2", sanitize(n), i)
					os.WriteFile(f, []byte(o.Query(r.Prelude, true)), 0o644)
					fmt.Println("     wrote", f)
				}
			}
		}
		fmt.Printf("%s: %d discharged, %d not\n", r.Key, ok, bad)
		if len(r.Unknown) > 0 {
			fmt.Println("  unknown calls:", r.Unknown)
		}
		if len(r.Trusted) > 0 {
			var ts []string
			for k := range r.Trusted {
				ts = append(ts, k)
			}
			sort.Strings(ts)
			fmt.Println("  trusted contracts used:", ts)
		}
	}
}

func countInstrs(fn *ssa.Function) int {
	n := 0
	for _, b := range fn.Blocks {
		n += len(b.Instrs)
	}
	return n
}
