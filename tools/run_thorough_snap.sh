#!/bin/sh
# usage (from a snapshot of /verif):  vp run -- tools/run_thorough_snap.sh [property...]
# Runs the thorough tier of the given (default: all registered) checks from this snapshot against /repo
# itself, writing evidence and scratch files into the snapshot only. Not evidence: a way to find out early
# whether the thorough tier would raise an alarm.
export GOFLAGS=-mod=mod GOPROXY=off
here=$(pwd)
(cd govc && go build -o $here/bin/govc .) || exit 2
props="$@"; [ -z "$props" ] && props=$(python3 -c "import json;print(' '.join(c['property_id'] for c in json.load(open('MANIFEST.json'))['checks']))")
for p in $props; do
  VERIF_DIR=$here $here/bin/govc check $p thorough 2>&1 | grep "^property\|^VIOLATION\|^NOTE" | cut -c1-220
done
