#!/bin/sh
# Re-runs every registered check on the current (clean) /repo and reports; used before committing evidence.
cd /verif
if [ -n "$(git -C /repo status --porcelain)" ]; then echo "WARNING: /repo has uncommitted changes:"; git -C /repo status --short; fi
for p in $(python3 -c "import json;print(' '.join(c['property_id'] for c in json.load(open('MANIFEST.json'))['checks']))"); do
  ./check $p quick | grep "^property\|^VIOLATION\|^KNOWN" | cut -c1-220
done
